"""C06  Parallel builds are schedule independent and bounded.

PART 1 -- token semaphore (specs/JobSem.tla = builder.py JobServerSemaphore on asyncio.Semaphore)
 (A) TLC: all interleavings of K tasks x Rounds acquire/release on N tokens with child `make`
     processes: Bounded, Conservation, NoDuplication, QuiescentAllBack, NoCrash, NoOrphanWaiter,
     deadlock freedom; liveness NoLostWakeup (only the loop fair), WaiterServed/Termination
     (everything fair) without state constraints; reachability (vacuity) configs.
 (B) TLC-generated behaviours (exhaustive at tiny constants + simulation) are replayed step by step
     into the REAL JobServerSemaphore on a REAL fifo (InternalJobServer) under a virtual loop that
     only records registrations; after every step the pipe byte count (FIONREAD), the holders and
     the reader registration are compared with the model (mismatch = model_drift) and P is
     evaluated on the real object, independent of the model.
PART 2 -- scheduler (specs/BobSched.tla, P layer)
 (A) TLC: NoDoubleExec, DepsFirst, Bounded, failure confinement, schedule independence of the
     package results, on a catalogue of DAGs, jobs 1..3, keep-going on/off, failures injected.
 (C) real `bob dev -j N [-k]` on generated projects whose step scripts block on fifos; the driver
     releases them in the order of a TLC behaviour (seed-random in thorough), injects failures,
     validates the recorded runBegin/runEnd trace with TraceBobSched (P), and checks the scripts'
     own running/ snapshots, dist trees against a -j1 build, exit status and executed step set.

Verdict: VIOLATION only for P violated on a real execution.  Code-vs-model disagreement = drift.
"""
import asyncio
import collections
import concurrent.futures as cf
import fcntl
import json
import multiprocessing as mp
import os
import random
import shutil
import signal
import struct
import subprocess
import sys
import termios
import time

from vf import common, tlc, evidence, bobrun, projgen

PROP = "C06"

# ---------------------------------------------------------------------------------------------
# PART 1: JobServerSemaphore replay
# ---------------------------------------------------------------------------------------------


class VLoop(asyncio.AbstractEventLoop):
    """Virtual loop: provides what asyncio.Semaphore / JobServerSemaphore need and records reader
    registrations. Nothing ever runs by itself; the replay driver performs every step."""

    def __init__(self):
        self.readers = {}
        self.soon = []
        self.errors = []

    def create_future(self):
        return asyncio.Future(loop=self)

    def call_soon(self, callback, *args, context=None):
        h = asyncio.Handle(callback, args, self, context)
        self.soon.append(h)
        return h

    call_soon_threadsafe = call_soon

    def add_reader(self, fd, callback, *args):
        self.readers[fd] = (callback, args)

    def remove_reader(self, fd):
        return self.readers.pop(fd, None) is not None

    def get_debug(self):
        return False

    def is_closed(self):
        return False

    def is_running(self):
        return True

    def time(self):
        return 0.0

    def call_exception_handler(self, context):
        self.errors.append(context)


def fionread(fd):
    buf = fcntl.ioctl(fd, termios.FIONREAD, b"\0\0\0\0")
    return struct.unpack("i", buf)[0]


class SemReplay:
    """One TLC behaviour of JobSem replayed into the real JobServerSemaphore."""

    def __init__(self, hist, cfg):
        self.hist = hist
        self.n, self.k, self.rounds, self.rec = cfg["N"], cfg["K"], cfg["Rounds"], cfg["Recursive"]
        self.violations = []        # (signature, detail)
        self.drift = []
        self.steps = 0
        self.nontrivial = set()
        self.transit_misuse = False  # implicit-slot decision taken while a hand-over was in transit (recursive)

    # -- real objects -------------------------------------------------------------------------
    def setup(self):
        from bob import builder as bb
        from bob.invoker import JobserverConfig
        self.loop = VLoop()
        if self.rec:
            r, w = os.pipe()
            self.server = bb.ExternalJobServer(JobserverConfig.fromPipe(self.n + 1, r, w))
            self.own_fds = (r, w)
            os.write(w, b"+" * self.n)
        else:
            self.server = bb.InternalJobServer(self.n)
            self.own_fds = ()
        self.rfd, self.wfd = self.server.getMakeFd()
        self.sem = bb.JobServerSemaphore(self.server.getMakeFd(), self.rec)
        self.st = {t: "idle" for t in range(1, self.k + 1)}
        self.coro = {}
        self.fut = {}
        self.done_rounds = {t: 0 for t in range(1, self.k + 1)}
        self.child = []

    def teardown(self):
        for c in self.coro.values():
            try:
                c.close()
            except BaseException:
                pass
        try:
            self.server.shutdown()
        except OSError:
            pass
        for fd in self.own_fds:
            try:
                os.close(fd)
            except OSError:
                pass

    # -- observation ---------------------------------------------------------------------------
    def real_state(self, t):
        s = self.st[t]
        if s == "waiting" and self.fut[t].done():
            return "woken"
        return s

    def holders(self):
        return sum(1 for t in self.st if self.st[t] == "holding")

    def count(self, what):
        return sum(1 for t in self.st if self.real_state(t) == what)

    def reader(self):
        return self.rfd in self.loop.readers

    def viol(self, oracle, **detail):
        base = "jobsem-recursive:" if self.rec else "jobsem:"
        if self.rec and self.transit_misuse:
            sig = base + "implicit-slot-accounting-ignores-handover-in-transit"
        else:
            sig = base + oracle
        detail.update(oracle=oracle, constants={"N": self.n, "K": self.k, "Rounds": self.rounds, "Recursive": self.rec},
                      behaviour=[(h["a"], h["t"]) for h in self.hist], executed_steps=self.steps)
        self.violations.append((sig, detail))

    def check_P(self, where):
        """P evaluated on the real object only (no model state involved). Returns False on violation."""
        pipe, hold = fionread(self.rfd), self.holders()
        budget = self.n + (1 if self.rec else 0)
        if hold + len(self.child) > budget:
            self.viol("budget-exceeded", where=where, holders=hold, child=len(self.child), budget=budget)
            return False
        if hold + len(self.child) + pipe > budget:
            self.viol("token-duplicated", where=where, holders=hold, child=len(self.child), pipe=pipe, budget=budget)
            return False
        if self.count("waiting") and pipe > 0 and not self.reader():
            self.viol("lost-wakeup-no-reader", where=where, pipe=pipe)
            return False
        quiescent = all(self.real_state(t) in ("idle", "done") for t in self.st) and not self.child
        if quiescent and pipe != self.n:
            self.viol("token-not-given-back", where=where, pipe=pipe, expected=self.n)
            return False
        if quiescent and self.reader():
            self.viol("reader-left-registered", where=where)
            return False
        return True

    # -- steps ---------------------------------------------------------------------------------
    def do_acquire(self, t):
        c = self.sem.acquire()
        self.coro[t] = c
        try:
            y = c.send(None)
        except StopIteration:
            self.st[t] = "holding"
            del self.coro[t]
            return
        if not isinstance(y, asyncio.Future):
            raise RuntimeError("acquire() yielded %r" % (y,))
        self.fut[t] = y
        self.st[t] = "waiting"

    def do_resume(self, t):
        c = self.coro[t]
        try:
            y = c.send(None)
        except StopIteration:
            self.st[t] = "holding"
            del self.coro[t]
            return
        raise RuntimeError("acquire() of a woken task yielded again: %r" % (y,))

    def do_release(self, t):
        pipe_before = fionread(self.rfd)
        try:
            self.sem.release()
        except Exception as e:
            self.st[t] = "crashed"
            self.viol("release-raised", task=t, error="%s: %s" % (type(e).__name__, e))
            return False
        wrote = fionread(self.rfd) > pipe_before
        if self.rec and self._woken_before and not wrote and self.count("woken") == self._woken_before:
            # treated as the implicit slot (no byte written, nobody woken) although a hand-over is in transit
            self.transit_misuse = True
        self.done_rounds[t] += 1
        self.st[t] = "done" if self.done_rounds[t] >= self.rounds else "idle"
        return True

    def do_callback(self):
        cb, args = self.loop.readers[self.rfd]
        cb(*args)

    def step(self, a, t):
        """perform one model action on the real object; returns None if ok, or a text why it is impossible"""
        self._woken_before = self.count("woken")
        if a in ("AcquireImplicit", "AcquireFast", "AcquireBlock"):
            if self.st[t] != "idle":
                return "task %d is %s" % (t, self.st[t])
            pipe_before = fionread(self.rfd)
            self.do_acquire(t)
            if self.rec and self._woken_before and self.st[t] == "holding" and fionread(self.rfd) == pipe_before:
                self.transit_misuse = True       # took the implicit slot while a hand-over was in transit
        elif a == "Resume":
            if self.real_state(t) != "woken":
                return "task %d is %s, not woken" % (t, self.real_state(t))
            self.do_resume(t)
        elif a == "Release":
            if self.st[t] != "holding":
                return "task %d is %s, not holding" % (t, self.st[t])
            if not self.do_release(t):
                return "violation"
        elif a in ("Callback", "SpuriousCallback"):
            if not self.reader():
                return "no reader registered"
            self.do_callback()
        elif a == "ChildTake":
            try:
                self.child.append(os.read(self.rfd, 1))
            except BlockingIOError:
                return "pipe empty"
        elif a == "ChildReturn":
            if not self.child:
                return "child holds nothing"
            os.write(self.wfd, self.child.pop())
        else:
            raise RuntimeError("unknown action " + a)
        self.steps += 1
        return None

    def complete(self):
        """Fair completion: the loop runs, holders release, children return, idle tasks ask again."""
        stale_cb = None
        for _ in range(400):
            pipe = fionread(self.rfd)
            sig = (pipe, tuple(self.real_state(t) for t in sorted(self.st)), len(self.child))
            woken = [t for t in sorted(self.st) if self.real_state(t) == "woken"]
            holding = [t for t in sorted(self.st) if self.st[t] == "holding"]
            idle = [t for t in sorted(self.st) if self.st[t] == "idle"]
            if self.reader() and pipe > 0 and stale_cb != sig:
                self.step("Callback", 0)
                after = (fionread(self.rfd), tuple(self.real_state(t) for t in sorted(self.st)), len(self.child))
                stale_cb = after if after == sig else None
            elif woken:
                self.step("Resume", woken[0])
            elif holding:
                if self.step("Release", holding[0]) == "violation":
                    return False
            elif self.child:
                self.step("ChildReturn", 0)
            elif idle:
                self.step(("AcquireFast"), idle[0])
            else:
                break
            if not self.check_P("completion"):
                return False
        else:
            raise RuntimeError("completion phase does not terminate")
        stuck = [t for t in sorted(self.st) if self.st[t] == "waiting"]
        if stuck:
            self.viol("lost-wakeup-stuck", stuck=stuck, pipe=fionread(self.rfd), reader=self.reader())
            return False
        return self.check_P("end")

    def run(self):
        prev = asyncio.events._get_running_loop()
        asyncio.events._set_running_loop(None)
        self.setup()
        asyncio.events._set_running_loop(self.loop)
        try:
            follow = True
            for i, h in enumerate(self.hist):
                why = self.step(h["a"], h["t"])
                if why == "violation":
                    return self
                if why is not None:
                    self.drift.append("step %d %s(%s) not possible on the real object: %s" % (i, h["a"], h["t"], why))
                    follow = False
                    break
                if not self.check_P("step %d %s" % (i, h["a"])):
                    return self
                if "pipe" not in h:
                    continue                      # a counterexample trace: actions only, no observations
                real = {"pipe": fionread(self.rfd), "holders": self.holders(), "reader": self.reader(),
                        "woken": self.count("woken"), "child": len(self.child)}
                model = {k: h[k] for k in real}
                if h["t"]:
                    real["st"], model["st"] = self.real_state(h["t"]), h["st"]
                if real != model:
                    self.drift.append("after step %d %s(%s): real %s model %s" % (i, h["a"], h["t"], real, model))
                    follow = False
                    break
                if h["a"] == "Callback":
                    self.nontrivial.add("callback-wakes-%d" % h["woken"])
                if h["a"] == "Release" and h["woken"]:
                    self.nontrivial.add("handover")
                if h["a"] == "AcquireBlock":
                    self.nontrivial.add("block")
                if h["a"] in ("ChildTake", "SpuriousCallback", "AcquireImplicit"):
                    self.nontrivial.add(h["a"])
            self.followed = follow
            self.complete()
        finally:
            asyncio.events._set_running_loop(prev)
            self.teardown()
        return self


def sem_task(arg):
    hist, cfg = arg
    r = SemReplay(hist, cfg).run()
    return {"violations": r.violations, "drift": r.drift, "steps": r.steps, "nontrivial": sorted(r.nontrivial),
            "shape": "".join(h["a"][0] if h["a"] != "Callback" else "K" for h in hist)}


# Which accounting of handed-over slots the JobSem mechanism model uses (constant FixHandover of JobSem.tla):
#   "asis"  = builder.py as found (recursive mode violates Bounded/NoDuplication: finding
#             jobsem-recursive:implicit-slot-accounting-ignores-handover-in-transit)
#   "fixed" = mutants/fix_c06_jobsem_handover.diff (a slot stays counted in __acquired while it is handed over)
# The check chooses; the other mechanism is kept as a weakening whose counterexample stays a replayed test.
# VF_C06_JOBSEM overrides the default (used to verify the repair before it is in /repo).
JOBSEM_MECHANISM_DEFAULT = "fixed"
_CFGDIR = []


def jobsem_fixed():
    return os.environ.get("VF_C06_JOBSEM", JOBSEM_MECHANISM_DEFAULT) == "fixed"


def semcfg(name, fixed):
    """absolute path of a copy of specs/<name> with FixHandover forced to the chosen mechanism"""
    import re
    if not _CFGDIR:
        _CFGDIR.append(common.scratch("vf-c06-cfg-"))
    with open(os.path.join(tlc.SPECS, name)) as f:
        txt = f.read()
    txt, n = re.subn(r"FixHandover = \w+", "FixHandover = " + ("TRUE" if fixed else "FALSE"), txt)
    if n != 1:
        raise RuntimeError("no FixHandover constant in " + name)
    path = os.path.join(_CFGDIR[0], ("fixed_" if fixed else "asis_") + name)
    with open(path, "w") as f:
        f.write(txt)
    return path


def cfg_constants(cfgfile):
    """constants of a JobSem cfg file (so that the replay uses exactly what TLC used)"""
    import re
    txt = open(os.path.join(tlc.SPECS, cfgfile)).read()
    out = {}
    for k, v in re.findall(r"(\w+)\s*=\s*(\w+)", txt):
        out[k] = {"TRUE": True, "FALSE": False}.get(v, int(v) if v.isdigit() else v)
    return out


# ---------------------------------------------------------------------------------------------
# PART 2: real parallel builds under driver-controlled step completion
# ---------------------------------------------------------------------------------------------
W = int(os.environ.get("VF_WORKERS", "16"))
LOAD_TIMEOUT = float(os.environ.get("VF_C06_TIMEOUT", "1500"))     # machinery timeout per wait (s)
STALL_CONFIRM = 30.0    # s without a single context switch in Bob's session, Bob alive, no script blocked = stalled
LAUNCH = [common.PY, "-m", "vf.boblaunch_c06"]


def label(k, n):
    return "%s.%s" % (k, n)


def dag_steps(dag):
    """step label -> set of dependency step labels (mirrors Deps of BobSched.tla)"""
    out = {}
    for p in dag["pk"]:
        out[label("c", dag["co"][p])] = set()
        out[label("b", p)] = {label("c", dag["co"][p])} | {label("p", q) for q in dag["deps"][p]}
        out[label("p", p)] = {label("b", p)}
    return out


SH_BEGIN = r'''
vf_n="%(label)s"
if ! mkdir "$VF_CTL/running/$vf_n" 2>/dev/null; then echo "already running" >> "$VF_CTL/log/$vf_n.dup"; fi
echo "$PWD :: $(ls "$VF_CTL/running" | tr '\n' ' ')" >> "$VF_CTL/log/$vf_n.start"
%(depcheck)s
if [ -e "$VF_CTL/free" ]; then
  vf_v=ok; if [ -e "$VF_CTL/fail/$vf_n" ]; then vf_v=fail; fi
else
  read -r vf_v < "$VF_CTL/fifo/$vf_n"
fi
if [ "$vf_v" != ok ]; then
  echo partial > partial.txt
  echo "$vf_v" >> "$VF_CTL/log/$vf_n.failed"
  rmdir "$VF_CTL/running/$vf_n"
  exit 1
fi
'''
SH_END = r'''
touch %(done)s
echo done >> "$VF_CTL/log/$vf_n.end"
rmdir "$VF_CTL/running/$vf_n"
'''
DEPCHECK_BUILD = r'''vf_i=0
for vf_d in "$@"; do
  vf_i=$((vf_i+1))
  if [ $vf_i -eq 1 ]; then vf_f=co.done; else vf_f=pk.done; fi
  if [ ! -e "$vf_d/$vf_f" ] || [ -e "$vf_d/partial.txt" ]; then echo "$vf_d" >> "$VF_CTL/log/$vf_n.depmissing"; fi
done'''
DEPCHECK_PACKAGE = r'''if [ ! -e "$1/bu.done" ] || [ -e "$1/partial.txt" ]; then echo "$1" >> "$VF_CTL/log/$vf_n.depmissing"; fi'''


def render_project(dag):
    """relpath -> text for a real project implementing the DAG (one recipe per checkout id)."""
    files = {"config.yaml": projgen.CONFIG, "default.yaml": "whitelist: [VF_CTL]\n"}
    recipes = collections.defaultdict(list)
    for p in sorted(dag["pk"]):
        recipes[dag["co"][p]].append(p)
    for rname, pkgs in recipes.items():
        variant = len(pkgs) > 1 or pkgs[0] != rname
        for p in pkgs:
            if dag["deps"][p] != dag["deps"][pkgs[0]]:
                raise RuntimeError("variants of one recipe must have the same dependencies")
        lab = (rname + "${X}") if variant else rname
        y = []
        if any(p in dag["roots"] for p in pkgs):
            y.append("root: true")
        deps = sorted(dag["deps"][pkgs[0]])
        if deps:
            y.append("depends:")
            for d in deps:
                dr = dag["co"][d]
                y.append("  - name: %s" % dr)
                y.append("    use: [result]")
                if dr != d:
                    y.append("    environment: {X: \"%s\"}" % d[len(dr):])
        co = SH_BEGIN % {"label": label("c", rname), "depcheck": ""} + \
            'echo "source of %s" > src.txt\n' % rname + SH_END % {"done": "co.done"}
        bu = SH_BEGIN % {"label": label("b", lab), "depcheck": DEPCHECK_BUILD} + \
            '{ echo "build %s"; %s ; } > out.txt\n' % (lab, projgen.dump_args()) + SH_END % {"done": "bu.done"}
        pk = SH_BEGIN % {"label": label("p", lab), "depcheck": DEPCHECK_PACKAGE} + \
            'cp -a "$1"/. .\necho "package %s" > pkg.txt\n' % lab + SH_END % {"done": "pk.done"}
        y.append("checkoutScript: " + projgen.yaml_block(co))
        if variant:
            y.append("buildVars: [X]")
            y.append("packageVars: [X]")
        y.append("buildScript: " + projgen.yaml_block(bu))
        y.append("packageScript: " + projgen.yaml_block(pk))
        files["recipes/%s.yaml" % rname] = "\n".join(y) + "\n"
    return files


def session_tasks(sid):
    """(pid, tid) -> (state, ctxt switches) for every thread of every process of session sid.
    Processes of other sessions (hundreds come and go on a busy machine) are ignored, also when they
    vanish while we look; a member of OUR session that vanishes in the middle counts as activity."""
    out = {}
    for d in os.listdir("/proc"):
        if not d.isdigit():
            continue
        try:
            with open("/proc/%s/stat" % d) as f:
                st = f.read()
            rest = st[st.rindex(")") + 2:].split()
            if int(rest[3]) != sid:
                continue
        except (OSError, ValueError, IndexError):
            continue                           # gone already (if it was ours, the key set differs from the last look)
        try:
            for t in os.listdir("/proc/%s/task" % d):
                with open("/proc/%s/task/%s/status" % (d, t)) as f:
                    txt = f.read()
                state, sw = "?", 0
                for line in txt.splitlines():
                    if line.startswith("State:"):
                        state = line.split()[1]
                    elif line.startswith(("voluntary_ctxt_switches:", "nonvoluntary_ctxt_switches:")):
                        sw += int(line.split()[1])
                out[(int(d), int(t))] = (state, sw)
        except (OSError, ValueError):
            out[(int(d), -1)] = ("R", -1)      # one of ours vanished while we looked: activity
    return out


class BobRun:
    """One real `bob dev <roots> -j N [-k]` whose step scripts block until released."""

    def __init__(self, work, dag, jobs, kg, free=False, fail=()):
        self.work, self.dag, self.jobs, self.kg = work, dag, jobs, kg
        self.ctl = os.path.join(work, "ctl")
        self.proj = os.path.join(work, "proj")
        self.steps = dag_steps(dag)
        for sub in ("running", "log", "fifo", "fail"):
            os.makedirs(os.path.join(self.ctl, sub))
        # the driver keeps every fifo open read-write: a script's open() never blocks, its read blocks
        # until the verdict is written, and it never sees EOF
        self.fifo = {}
        for s in self.steps:
            os.mkfifo(os.path.join(self.ctl, "fifo", s))
            self.fifo[s] = os.open(os.path.join(self.ctl, "fifo", s), os.O_RDWR)
        if free:
            open(os.path.join(self.ctl, "free"), "w").close()
        for s in fail:
            open(os.path.join(self.ctl, "fail", s), "w").close()
        os.makedirs(self.proj)
        bobrun.write_files(self.proj, render_project(dag))
        self.evf = os.path.join(work, "events.ndjson")
        self.outf = open(os.path.join(work, "bob.out"), "w+b")
        argv = ["dev"] + sorted(dag["roots"]) + ["-j", str(jobs)] + (["-k"] if kg else [])
        env = common.clean_env({"PYTHONPATH": common.ROOT, "VERIF_REPO": common.REPO, "VF_CTL": self.ctl})
        self.proc = subprocess.Popen(LAUNCH + ["--repo", common.REPO, "--events", self.evf, "--"] + argv,
                                     cwd=self.proj, env=env, stdout=self.outf, stderr=subprocess.STDOUT,
                                     stdin=subprocess.DEVNULL, start_new_session=True)
        if SESSIONS:
            open(os.path.join(SESSIONS, str(self.proc.pid)), "w").close()
        self.released = []
        self.selffailed = []      # released steps whose script ended without removing its marker

    def blocked(self):
        return sorted(os.listdir(os.path.join(self.ctl, "running")))

    def wait_quiescent(self):
        """Wait until Bob cannot do anything more without us: the main process has exited, or every
        thread of every process of its session sleeps and did not run between two looks (equal context
        switch counters). No sleep is used as synchronisation: the pause only paces the polling; the
        decision is taken from the counters. Returns 'exited' | 'blocked' | 'stalled'."""
        t0 = time.time()
        prev = None
        stalled, t_stall = 0, None
        while True:
            if self.proc.poll() is not None:
                return "exited"
            cur = session_tasks(self.proc.pid)
            quiet = bool(cur) and all(st in ("S", "Z", "I") for st, _ in cur.values())
            if quiet and prev == cur and self.proc.poll() is None:
                b = self.blocked()
                if b:
                    return "blocked"
                if not b:
                    # nothing runs, nothing is blocked, Bob is alive: confirm over several looks
                    stalled += 1
                    t_stall = t_stall or time.time()
                    if stalled >= 20 and time.time() - t_stall > STALL_CONFIRM:
                        return "stalled"
            else:
                stalled, t_stall = 0, None
            prev = cur if quiet else None
            if time.time() - t0 > LOAD_TIMEOUT:
                raise RuntimeError("timeout waiting for Bob to become quiescent (blocked=%s)\n%s" % (self.blocked(), self.output()[-1500:]))
            time.sleep(0.05 if not quiet else 0.02)

    def release(self, s, verdict):
        os.write(self.fifo[s], (verdict + "\n").encode())
        self.released.append((s, verdict))
        # the step is finished for us once its marker is gone (the script removes it before it exits).
        # A script that died on its own (e.g. a dependency result is missing) leaves the marker behind:
        # then nobody runs any more (the write above made the reader runnable at once, so "everybody
        # sleeps twice" cannot be observed before the script has run) and the driver removes the marker.
        marker = os.path.join(self.ctl, "running", s)
        t0 = time.time()
        prev, i = None, 0
        while os.path.isdir(marker):
            i += 1
            if self.proc.poll() is not None:
                break
            if i % 5 == 0:
                cur = session_tasks(self.proc.pid)
                quiet = bool(cur) and all(st in ("S", "Z", "I") for st, _ in cur.values())
                if quiet and prev == cur:
                    break
                prev = cur if quiet else None
            if time.time() - t0 > LOAD_TIMEOUT:
                raise RuntimeError("released step %s does not finish" % s)
            time.sleep(0.01)
        if os.path.isdir(marker):
            try:
                os.rmdir(marker)
            except OSError:
                pass
            self.selffailed.append(s)

    def output(self):
        self.outf.flush()
        self.outf.seek(0)
        return self.outf.read().decode("utf-8", "replace")

    def finish(self):
        try:
            rc = self.proc.wait(timeout=LOAD_TIMEOUT)
        except subprocess.TimeoutExpired:
            rc = None
        self.kill()
        if rc is None:
            raise RuntimeError("bob does not exit\n" + self.output()[-1500:])
        return rc

    def kill(self):
        try:
            os.killpg(self.proc.pid, signal.SIGKILL)
        except (ProcessLookupError, PermissionError):
            pass
        try:
            self.proc.wait(timeout=60)
        except subprocess.TimeoutExpired:
            pass
        if SESSIONS:
            try:
                os.unlink(os.path.join(SESSIONS, str(self.proc.pid)))
            except OSError:
                pass
        for fd in self.fifo.values():
            try:
                os.close(fd)
            except OSError:
                pass
        self.fifo = {}

    def events(self):
        ev = []
        if os.path.exists(self.evf):
            with open(self.evf) as f:
                for line in f:
                    try:
                        ev.append(json.loads(line))
                    except ValueError:
                        pass
        return ev

    def logs(self):
        """step label -> {'start': [(cwd, [running...])...], 'dup': n, 'depmissing': [...], 'end': n, 'failed': n}"""
        out = {}
        d = os.path.join(self.ctl, "log")
        for fn in sorted(os.listdir(d)):
            s, kind = fn.rsplit(".", 1)
            with open(os.path.join(d, fn)) as f:
                lines = f.read().splitlines()
            e = out.setdefault(s, {"start": [], "dup": 0, "depmissing": [], "end": 0, "failed": 0})
            if kind == "start":
                for ln in lines:
                    cwd, _, rest = ln.partition(" :: ")
                    e["start"].append((cwd, rest.split()))
            elif kind == "depmissing":
                e["depmissing"] = lines
            else:
                e[kind] = len(lines)
        return out

    def dist_trees(self):
        """package label -> tree of its dist workspace (located through the scripts' own start logs)"""
        out = {}
        for s, e in self.logs().items():
            if s.startswith("p.") and e["start"]:
                out[s] = bobrun.walk_tree(e["start"][0][0])
        return out


def sched_sig(what, failed):
    """stable signature: the broken P condition + the kinds of the steps that were made to fail"""
    kinds = "".join(sorted({s.split(".")[0] for s in failed}))
    return "sched:%s%s" % (what, (":fail-" + kinds) if kinds else "")


def kg_incomplete_name(missing):
    """keep-going left work undone: builds/packages only, or even checkouts"""
    return "keep-going-incomplete" + ("-incl-checkouts" if any(m.startswith("c.") for m in missing) else "")


def tdeps(steps, s, memo=None):
    out = set()
    todo = list(steps[s])
    while todo:
        x = todo.pop()
        if x not in out:
            out.add(x)
            todo.extend(steps[x])
    return out


def reference_build(arg):
    """sequential (-j1) free-running build of a DAG: package label -> dist tree.
    A sequential build of a project in which no step fails must succeed and execute every step once:
    anything else is reported as a violation (4th element) instead of a reference."""
    dag, = arg
    work = common.scratch("vf-c06r-")
    run = BobRun(work, dag, 1, False, free=True)
    try:
        rc = run.finish()
        trees = run.dist_trees()
        logs = run.logs()
        out = run.output()[-2000:]
    finally:
        run.kill()
        shutil.rmtree(work, ignore_errors=True)
    runs = {s: len(e["start"]) for s, e in logs.items()}
    detail = {"oracle": "sequential reference build", "dag": dag["name"], "jobs": 1, "keep_going": False, "rc": rc,
              "executions": runs, "output": out}
    if rc != 0:
        return dag["name"], None, runs, (sched_sig("exit-status", []), detail)
    if any(n > 1 for n in runs.values()):
        return dag["name"], None, runs, (sched_sig("step-executed-twice", []), detail)
    if set(trees) != {label("p", p) for p in dag["pk"]} or any(t is None for t in trees.values()):
        return dag["name"], None, runs, (sched_sig("successful-build-incomplete", []), detail)
    return dag["name"], trees, runs, None


def run_scenario(arg):
    """One real parallel build steered by a BobSched behaviour. Returns observations + P verdicts."""
    idx, beh, seed, randomize, ref = arg
    cfg = beh[0]
    dag, jobs, kg = cfg["def"], cfg["jobs"], cfg["kg"]
    steps = dag_steps(dag)
    order = [label(e["k"], e["n"]) for e in beh[1:] if e["e"] in ("EndOk", "EndFail")]
    failset = {label(e["k"], e["n"]) for e in beh[1:] if e["e"] == "EndFail"}
    rng = random.Random(seed * 7919 + idx)
    prio = {s: i for i, s in enumerate(order)}
    viol = []      # (signature, detail)
    res = {"idx": idx, "dag": dag["name"], "jobs": jobs, "kg": kg, "failset": sorted(failset), "violations": viol,
           "trace": None, "maxpar": 0, "released": [], "rc": None}
    def v(what, **detail):
        detail.update(oracle="driver/scripts", dag=dag["name"], jobs=jobs, keep_going=kg, inject_fail=sorted(failset),
                      released=list(run.released), dagdef=dag, dag_index=cfg["dag"])
        viol.append((sched_sig(what, [s for s, vd in run.released if vd != "ok"]), detail))

    work = common.scratch("vf-c06s-")
    run = BobRun(work, dag, jobs, kg)
    t0 = time.time()
    try:
        stop = False
        while not stop:
            q = run.wait_quiescent()
            logs = run.logs()
            for s, e in logs.items():
                if e["dup"] or len(e["start"]) > 1:
                    v("step-executed-twice", step=s, starts=len(e["start"]), at_once=bool(e["dup"]))
                    stop = True
            if stop or q == "exited":
                break
            if q == "stalled":
                v("stalled-with-work-left", executed=sorted(logs))
                break
            b = run.blocked()
            res["maxpar"] = max(res["maxpar"], len(b))
            if len(b) > jobs:
                v("more-than-N-running", running=b)
                break
            if randomize:
                s = rng.choice(b)
            else:
                s = min(b, key=lambda x: (prio.get(x, 10 ** 6), x))
            run.release(s, "fail" if s in failset else "ok")
        if viol:
            run.kill()
            rc = None
        else:
            rc = run.finish()
        res["rc"] = rc
        res["released"] = list(run.released)
        res["wall"] = round(time.time() - t0, 1)
        logs = run.logs()
        events = run.events()
        mods = [e["file"] for e in events if e["e"] == "bobModule"]
        if not mods or not mods[0].startswith(os.path.realpath(common.REPO) + os.sep):
            raise RuntimeError("the build did not run the Bob under test (%s): %s" % (common.REPO, mods))
        executed = {s for s, e in logs.items() if e["start"]}
        failed = {s for s, vd in run.released if vd != "ok"} | set(run.selffailed)
        res["selffailed"] = list(run.selffailed)
        okdone = {s for s, e in logs.items() if e["end"]}
        res["executed"] = sorted(executed)
        # --- recorder-independent witnesses (the scripts' own logs) ---
        if not viol:
            for s, e in sorted(logs.items()):
                for cwd, running in e["start"]:
                    if len(running) > jobs:
                        v("more-than-N-running", step=s, running=running)
                    res["maxpar"] = max(res["maxpar"], len(running))
                if e["depmissing"]:
                    v("dependency-result-missing-at-start", step=s, missing=[os.path.relpath(x, run.proj) for x in e["depmissing"]])
        if not viol:
            tainted = {s for s in steps if tdeps(steps, s) & failed}
            if executed & tainted:
                v("dependant-of-failed-step-ran", steps=sorted(executed & tainted), failed=sorted(failed))
            if (rc != 0) != bool(failed):
                v("exit-status", rc=rc, failed=sorted(failed), output=run.output()[-1500:])
            if not failed and okdone != set(steps):
                v("successful-build-incomplete", missing=sorted(set(steps) - okdone))
            missing = (set(steps) - tainted - failed) - okdone
            if failed and kg and missing:
                v(kg_incomplete_name(missing), missing=sorted(missing), failed=sorted(failed))
        # --- schedule independence: dist trees against the sequential build ---
        if not viol:
            trees = run.dist_trees()
            for s in sorted(okdone):
                if s.startswith("p.") and trees.get(s) != ref[s]:
                    v("dist-differs-from-sequential", package=s,
                      got=bobrun.tree_text(logs[s]["start"][0][0]), want_files=sorted(ref[s]))
        # --- job-server tokens given back ---
        if not viol and jobs > 1 and (rc == 0 or kg):
            ends = [e for e in events if e["e"] == "jobserverEnd"]
            if not ends:
                raise RuntimeError("no jobserverEnd event recorded")
            for e in ends:
                if e["tokens"] != jobs:
                    v("jobserver-tokens-not-given-back", tokens=e["tokens"], jobs=jobs)
                    break
        # --- trace for TraceBobSched ---
        path2label = {}
        for s, e in logs.items():
            for cwd, _ in e["start"]:
                path2label[os.path.relpath(cwd, run.proj)] = s
        tr = [{"e": "Config", "dag": cfg["dag"], "jobs": jobs, "kg": kg}]
        complete = rc is not None
        for e in events:
            if e["e"] in ("runBegin", "runEnd"):
                lab = path2label.get(e["path"])
                if lab is None:
                    raise RuntimeError("no script log for recorded step %s" % e["path"])
                k, n = lab.split(".", 1)
                tr.append({"e": "Start" if e["e"] == "runBegin" else ("EndOk" if e["ok"] else "EndFail"), "k": k, "n": n})
        if complete:
            tr.append({"e": "Finish", "rc": 0 if rc == 0 else 1})
        res["trace"] = tr
        res["trace_complete"] = complete
    finally:
        run.kill()
        if not os.environ.get("VF_C06_KEEP"):
            shutil.rmtree(work, ignore_errors=True)
    return res


def explain_rejection(dagdef, tr, n):
    """Names the P condition broken by event n of a rejected trace (for a stable signature only; the
    verdict is TLC's)."""
    steps = dag_steps(dagdef)
    jobs = tr[0]["jobs"]
    st = {s: "new" for s in steps}
    for i, e in enumerate(tr[1:], 1):
        if e["e"] == "Finish":
            if i == n:
                failed = {s for s in st if st[s] == "failed"}
                if any(x == "running" for x in st.values()):
                    return "finish-while-running"
                if (e["rc"] == 0) != (not failed):
                    return "exit-status"
                if not failed:
                    return "successful-build-incomplete"
                missing = [x for x in st if st[x] not in ("ok", "failed") and not (tdeps(steps, x) & failed)]
                return kg_incomplete_name(missing)
            continue
        s = label(e["k"], e["n"])
        if i == n:
            if s not in steps:
                return "unknown-step"
            if e["e"] == "Start":
                if st[s] == "running":
                    return "step-executed-twice-at-once"
                if st[s] != "new":
                    return "step-executed-twice"
                if any(st[x] == "failed" for x in tdeps(steps, s)):
                    return "dependant-of-failed-step-ran"
                if any(st[x] != "ok" for x in steps[s]):
                    return "dependency-not-finished"
                if sum(1 for x in st.values() if x == "running") >= jobs:
                    return "more-than-N-running"
            return "other"
        if s in st:
            st[s] = {"Start": "running", "EndOk": "ok", "EndFail": "failed"}[e["e"]]
    return "other"


def validate_sched_traces(results, rep, report):
    traces = [r["trace"] for r in results]
    work = common.scratch("vf-c06t-")
    tf = os.path.join(work, "traces.json")
    with open(tf, "w") as f:
        json.dump(traces, f)
    res = tlc.run("TraceBobSched", "TraceBobSched.cfg", workers=1, timeout=3000, env={"TRACE_FILE": tf}, deadlock=False)
    rep.add_tlc(res, "TraceBobSched (%d traces)" % len(traces))
    if res.violated:
        report("sched:trace-invariant:" + res.violated, {"cex": res.cex[-3:]})
    if not res.printed:
        raise tlc.TlcError("trace validation printed no result:\n" + res.out[-2000:])
    reached = res.printed[-1]
    rejected = 0
    for j, r in enumerate(results):
        t = r["trace"]
        n = reached[j] if isinstance(reached, list) else reached[str(j + 1)]
        # register counts matched records including the Config record (l - 1)
        if n < len(t):
            rejected += 1
            why = explain_rejection(r["dagdef"], t, n)
            failed = [label(e["k"], e["n"]) for e in t[1:] if e["e"] == "EndFail"]
            report(sched_sig(why, failed),
                   {"oracle": "TraceBobSched rejected the recorded trace", "trace": t, "rejected_event_index": n,
                    "rejected_event": t[n], "dag": r["dag"], "jobs": r["jobs"], "keep_going": r["kg"],
                    "inject_fail": r["failset"], "dagdef": r["dagdef"], "dag_index": t[0]["dag"]})
    return rejected


# ---------------------------------------------------------------------------------------------
# driver
# ---------------------------------------------------------------------------------------------
JOBSEM_INVS = ["TypeOK", "Bounded", "Conservation", "NoDuplication", "QuiescentAllBack", "NoCrash", "NoOrphanWaiter",
               "MechConsistent"]
JOBSEM_ACTIONS = ["AcquireFast", "AcquireBlock", "Resume", "Callback", "ReleaseHandover", "ReleaseWrite", "ChildTake",
                  "ChildReturn"]


def violated_set(res):
    import re
    return sorted(set(re.findall(r"Invariant (\w+) is violated", res.out)))


def cex_behaviour(res):
    """counterexample of a JobSem run -> list of {a, t} steps"""
    import re
    out = []
    for act, _ in res.cex:
        m = re.match(r"(\w+)(?:\((\d+)\))?", act)
        name = m.group(1)
        if name in ("Initial", "Done"):
            continue
        if name.startswith("Release"):
            name = "Release"
        out.append({"a": name, "t": int(m.group(2) or 0)})
    return out


def pick_scenarios(behs, seed, quick):
    """choose behaviours so that every DAG, job count, keep-going and failure class is exercised"""
    rng = random.Random(seed)
    behs = list(behs)
    rng.shuffle(behs)

    def feat(b):
        ends = [e for e in b[1:] if e["e"] in ("EndOk", "EndFail")]
        fails = [e for e in b[1:] if e["e"] == "EndFail"]
        later = False
        if fails:
            at = b.index(fails[0])
            later = any(e["e"] == "Start" for e in b[at + 1:])
        heldy = False
        if fails:
            # the failure is recorded while the independent leaf y is still held (started or not, but not ended)
            endy = [i for i, e in enumerate(b) if e["e"] == "EndOk" and (e["k"], e["n"]) == ("b", "y")]
            heldy = bool(endy) and b.index(fails[0]) < endy[0]
        return {"dag": b[0]["def"]["name"], "jobs": b[0]["jobs"], "kg": b[0]["kg"],
                "fail": fails[0]["k"] if fails else None, "failn": fails[0]["n"] if fails else None,
                "later": later, "heldy": heldy, "len": len(b)}
    D6 = ("chain", "diamond", "twopath", "wide", "sharedco", "tworoots")
    # every DAG at full parallelism without failure (schedule independence, bounds, once-only)
    classes = [dict(dag=d, jobs=(3,), fail=(None,)) for d in D6]
    # keep-going with a failing build/package step while independent work is still to be started
    classes += [dict(dag=d, jobs=(2, 3), kg=(True,), fail=("b", "p"), later=True) for d in ("diamond", "wide", "sharedco", "tworoots")]
    # keep-going with a failing checkout
    classes += [dict(dag=d, jobs=(2, 3), kg=(True,), fail=("c",)) for d in ("diamond", "wide")]
    # a failing step that is reached on two paths, sequential and parallel (same failure must be seen, not re-run)
    classes += [dict(dag="twopath", jobs=(1,), kg=(True,), fail=("b", "p"), failn=("l",)),
                dict(dag="diamond", jobs=(1, 2), kg=(True,), fail=("b", "p"), failn=("l",))]
    # a failing package with two dependants at different depths, keep-going, fewer slots than work: the shared
    # package is made to fail while the other slot is held by y, i.e. while the expansion of the deep path is
    # still queued for a job slot -- the deep dependant asks for the package strictly AFTER its failure
    classes += [dict(dag="deepshare", jobs=(2,), kg=(True,), fail=("b",), failn=("x",), heldy=True)]
    # failure without keep-going
    classes += [dict(dag=d, jobs=j, kg=(False,), fail=("c", "b", "p")) for d, j in (("chain", (1, 2, 3)), ("diamond", (2, 3)), ("twopath", (2, 3)))]
    # fewer slots than startable steps
    classes += [dict(dag="diamond", jobs=(1,), fail=(None,)), dict(dag="wide", jobs=(2,), fail=(None,)),
                dict(dag="twopath", jobs=(2,), fail=(None,)), dict(dag="tworoots", jobs=(2,), fail=(None,))]
    onlydag = os.environ.get("VF_C06_ONLYDAG")        # development knob
    if onlydag:
        classes = [c for c in classes if c["dag"] == onlydag]
    chosen, used = [], set()
    for c in classes:
        for i, b in enumerate(behs):
            f = feat(b)
            if i in used or f["dag"] != c["dag"] or f["jobs"] not in c["jobs"] or f["fail"] not in c["fail"]:
                continue
            if "kg" in c and f["kg"] not in c["kg"]:
                continue
            if "failn" in c and f["failn"] not in c["failn"]:
                continue
            if c.get("later") and not f["later"]:
                continue
            if c.get("heldy") and not f["heldy"]:
                continue
            if f["fail"] is None and b[-1].get("rc") != 0:
                continue
            used.add(i)
            chosen.append((b, False))
            break
        else:
            raise RuntimeError("no generated behaviour for scenario class %s" % c)
    if not quick:
        seen = set()
        for i, b in enumerate(behs):
            f = feat(b)
            key = (f["dag"], f["jobs"], f["kg"], f["fail"])
            if i in used or key in seen or len(chosen) >= 60:
                continue
            seen.add(key)
            used.add(i)
            chosen.append((b, len(chosen) % 2 == 0))      # every second one: seed-random release order
    return chosen


SESSIONS = None     # directory: one file per live Bob session (so that the parent can kill what a dead worker left)


def kill_registered_sessions():
    if not SESSIONS or not os.path.isdir(SESSIONS):
        return
    for fn in os.listdir(SESSIONS):
        try:
            os.killpg(int(fn), signal.SIGKILL)
        except (ValueError, ProcessLookupError, PermissionError):
            pass


def replay(path, seed):
    """bin/check C06 --replay evidence/replay/C06-n.json: re-executes the recorded case on the real code
    (semaphore behaviour, or DAG/jobs/keep-going/failures/release order of a real build). Exit 1 = reproduced."""
    with open(path) as f:
        doc = json.load(f)
    sig, d = doc["signature"], doc["detail"]
    common.use_repo()
    import bob.builder  # noqa: F401
    found = []
    if sig.startswith("jobsem"):
        hist = [{"a": x[0], "t": x[1]} for x in d["behaviour"]]
        r = SemReplay(hist, d["constants"]).run()
        found = r.violations
    elif sig.startswith("sched") and "dagdef" in d:
        dag = d["dagdef"]
        if "released" in d:
            order = [(s, vd) for s, vd in d["released"]]
        else:
            order = [(label(e["k"], e["n"]), "ok" if e["e"] == "EndOk" else "fail") for e in d["trace"][1:]
                     if e["e"] in ("EndOk", "EndFail")]
        order += [(s, "fail") for s in d.get("inject_fail", []) if s not in [x for x, _ in order]]
        beh = [{"e": "Config", "dag": d["dag_index"], "jobs": d["jobs"], "kg": d["keep_going"], "def": dag}]
        for s, vd in order:
            k, n = s.split(".", 1)
            beh.append({"e": "EndOk" if vd == "ok" else "EndFail", "k": k, "n": n})
        name, trees, runs, bad = reference_build((dag,))
        if bad:
            found = [bad]
        else:
            res = run_scenario((0, beh, seed, False, trees))
            res["dagdef"] = dag
            found = list(res["violations"])

            class _Sink:
                def add_tlc(self, *a, **k):
                    pass
            validate_sched_traces([res], _Sink(), lambda s, det: found.append((s, det)))
            print("trace:", [(e["e"], e.get("k", "") + "." + e.get("n", "")) for e in res["trace"][1:]])
    else:
        print("cannot replay %s (model-level or old-format record)" % sig)
        return 2
    for s, det in found:
        print("REPRODUCED signature: %s  (%s)" % (s, det.get("oracle")))
    if not found:
        print("not reproduced: " + sig)
    return 1 if found else 0


def main():
    a = common.args(PROP)
    if a.replay:
        return replay(a.replay, a.seed)
    rep = evidence.Report(PROP, a.tier, a.seed)
    quick = a.tier == "quick"
    rep.rule = ("traces = (1) TLC behaviours of JobSem (exhaustive at K=2,N=1 + simulation at K=4) replayed step by step into the "
                "real JobServerSemaphore on a real fifo, (2) recorded runBegin/runEnd traces of real `bob dev -j N [-k]` runs on "
                "generated DAG projects validated by TLC against BobSched (P); evaluations = real semaphore operations + real "
                "step executions; non-trivial = distinct semaphore features (hand-over, callback waking 1/2, blocked acquire, "
                "child take, spurious callback) and distinct (DAG, jobs, keep-going, failing step kind, max parallelism) scenarios")
    rep.assumptions = [
        "no task is cancelled while it waits for a job slot (builds that are not aborted)",
        "a child take/return between two iterations of jobavailableCallback commutes to before the callback",
        "Bob is quiescent when every thread of its session sleeps and no context switch happened between two looks (Linux /proc)",
        "Windows BoundedSemaphore path and real GNU make children are not exercised (the driver plays the children)"]
    sigcount = collections.Counter()

    def report(sig, detail):
        sigcount[sig] += 1
        if sigcount[sig] == 1:               # one replay file per signature and run; the rest is counted
            rep.violation(sig, detail)

    common.use_repo()
    import bob.builder  # noqa: F401  (import before fork)
    import bob.invoker  # noqa: F401
    if not os.path.realpath(bob.builder.__file__).startswith(os.path.realpath(common.REPO) + os.sep):
        raise RuntimeError("bob imported from %s, not from the tree under test %s" % (bob.builder.__file__, common.REPO))
    global SESSIONS
    SESSIONS = common.scratch("vf-c06-sessions-")
    pool = mp.get_context("fork").Pool(min(W, 16))
    tw = max(1, min(4, W // 4))
    tpool = cf.ThreadPoolExecutor(max_workers=max(2, min(8, W // 2)))
    T, CFG = {}, {}
    fixed = jobsem_fixed()
    rep.extra["jobsem_mechanism"] = "fixed" if fixed else "asis"

    # development knobs (not used by bin/check): VF_C06_PART=1|2 runs one part only, VF_C06_NOTLC=1 skips the
    # exhaustive (A) runs (seeded changes of /repo cannot affect them)
    part = os.environ.get("VF_C06_PART", "")
    notlc = bool(os.environ.get("VF_C06_NOTLC"))

    def go(name, module, cfg, **kw):
        if (part == "1" and name.startswith("sched")) or (part == "2" and name.startswith("sem")):
            return
        if notlc and "simulate" not in kw and name != "sem_gen":
            return
        kw.setdefault("workers", tw)
        kw.setdefault("timeout", 3000 if quick else 9000)
        if module == "JobSem":
            cfg = semcfg(cfg, kw.pop("mech", fixed))
            CFG[name] = cfg
        T[name] = tpool.submit(tlc.run, module, cfg, **kw)

    nsim = 1500 if quick else 12000
    go("sched_gen", "BobSched", "BobSched_gen.cfg", workers=1, simulate="num=%d" % (1500 if quick else 4000), depth=80,
       seed=a.seed + 1, deadlock=False)
    go("sched_gen_deep", "BobSched", "BobSched_gen_deep.cfg", workers=1, simulate="num=%d" % (2500 if quick else 6000), depth=80,
       seed=a.seed + 1, deadlock=False)
    go("sem_gen", "JobSem", "JobSem_gen.cfg", deadlock=False)
    go("sem_sim", "JobSem", "JobSem_gen_sim.cfg", workers=1, simulate="num=%d" % nsim, depth=60, seed=a.seed + 1, deadlock=False)
    go("sem_rec_sim", "JobSem", "JobSem_gen_rec.cfg", workers=1, simulate="num=%d" % (300 if quick else 2000), depth=40,
       seed=a.seed + 1, deadlock=False)
    if not quick:
        go("sem_sim3", "JobSem", "JobSem_gen_sim3.cfg", workers=1, simulate="num=%d" % nsim, depth=60, seed=a.seed + 2, deadlock=False)
    go("sem_ex", "JobSem", "JobSem.cfg" if quick else "JobSem_thorough.cfg", coverage=True)
    go("sem_rec", "JobSem", "JobSem_rec.cfg")
    if fixed:
        # the old accounting as a weakening: must violate, its counterexample is replayed into the real class
        go("sem_rec_old", "JobSem", "JobSem_rec.cfg", mech=False)
    elif not quick:
        # the repaired accounting (FixHandover = TRUE) satisfies every invariant in the model
        go("sem_rec_fixed", "JobSem", "JobSem_rec.cfg", mech=True)
        go("sem_fixed", "JobSem", "JobSem.cfg", mech=True)
    go("sem_live", "JobSem", "JobSem_live.cfg" if quick else "JobSem_live_thorough.cfg")
    go("sem_live_term", "JobSem", "JobSem_live_term.cfg" if quick else "JobSem_live_term_thorough.cfg")
    for r in ("ReachHandover", "ReachTwoWoken", "ReachChildStarves"):
        go("sem_reach_" + r, "JobSem", "JobSem_reach_%s.cfg" % r)
    go("sched_ex", "BobSched", "BobSched.cfg" if quick else "BobSched_thorough.cfg", coverage=True)
    go("sched_reach", "BobSched", "BobSched_reach_All.cfg", extra=["-continue"])
    go("sched_live", "BobSched", "BobSched_live.cfg")
    go("sched_weak_Deps", "BobSched", "BobSched_weak_Deps.cfg", workers=1, simulate="num=300", depth=60, seed=a.seed + 1)
    go("sched_weak_Once", "BobSched", "BobSched_weak_Once.cfg")
    go("sched_weak_Bound", "BobSched", "BobSched_weak_Bound.cfg")

    try:
        # ---- PART 2 first (slow): real builds --------------------------------------------------
        scen, scen_async, ref_async = [], None, None
        if "sched_gen" in T:
            gen = T["sched_gen"].result()
            behs = [b for b in gen.printed if b and b[-1]["e"] == "Finish"]
            # the large two-depth DAG is rare in the uniform sample: dedicated generation run
            behs += [b for b in T["sched_gen_deep"].result().printed if b and b[-1]["e"] == "Finish"]
            rep.extra["sched_behaviours_generated"] = len(behs)
            scen = pick_scenarios(behs, a.seed, quick)
            dags = {}
            for b, _ in scen:
                dags[b[0]["def"]["name"]] = b[0]["def"]
            ref_async = pool.map_async(reference_build, [(d,) for d in dags.values()], chunksize=1)

        # ---- PART 1 (B): semaphore replay, meanwhile -------------------------------------------
        sem_tasks = []
        for name, cfgf in (("sem_gen", "JobSem_gen.cfg"), ("sem_sim", "JobSem_gen_sim.cfg"), ("sem_rec_sim", "JobSem_gen_rec.cfg"),
                           ("sem_sim3", "JobSem_gen_sim3.cfg")):
            if name not in T:
                continue
            r = T[name].result()
            consts = cfg_constants(CFG[name])
            seen = set()
            for h in r.printed:
                key = json.dumps([(x["a"], x["t"]) for x in h])
                if key not in seen:
                    seen.add(key)
                    sem_tasks.append((h, consts))
            rep.extra["jobsem_behaviours_%s" % name] = len(seen)
            if name == "sem_gen":
                rep.add_tlc(r, "JobSem_gen exhaustive enumeration K=2 N=1")
        rec = T["sem_rec"].result() if "sem_rec" in T else None
        if rec is not None:
            rep.add_tlc(rec, "JobSem_rec (Recursive=TRUE, mechanism %s) exhaustive" % ("fixed" if fixed else "asis"))
            rep.extra["jobsem_recursive_model_violates"] = rec.violated
            if rec.violated:
                sem_tasks.append((cex_behaviour(rec), cfg_constants(CFG["sem_rec"])))
                if fixed:
                    rep.violation("model:JobSem-recursive:" + rec.violated, {"cex": rec.cex})
        if "sem_rec_old" in T:
            old = T["sem_rec_old"].result()
            rep.add_tlc(old, "JobSem_rec weakening: old hand-over accounting")
            if not old.violated:
                raise tlc.TlcError("vacuity: the old hand-over accounting does not violate any invariant")
            rep.extra["jobsem_old_accounting_violates"] = old.violated
            sem_tasks.append((cex_behaviour(old), cfg_constants(CFG["sem_rec_old"])))
            rep.nontriv("jobsem:old-accounting-counterexample-replayed")
        sem_async = pool.map_async(sem_task, sem_tasks, chunksize=64)

        if ref_async is not None:
            refs = {}
            for name, trees, runs, bad in ref_async.get(LOAD_TIMEOUT * 2):
                rep.evaluations += sum(runs.values())
                if bad:
                    report(*bad)
                else:
                    refs[name] = trees
            scen = [(b, rnd) for b, rnd in scen if b[0]["def"]["name"] in refs]      # no reference: already a violation
            tasks = [(i, b, a.seed, rnd, refs[b[0]["def"]["name"]]) for i, (b, rnd) in enumerate(scen)]
            scen_async = pool.map_async(run_scenario, tasks, chunksize=1)

        # ---- PART 1 results -------------------------------------------------------------------
        rec_confirmed = False
        shapes = set()
        for i, r in enumerate(sem_async.get(LOAD_TIMEOUT * 2)):
            rep.traces += 1
            rep.evaluations += r["steps"]
            for nt in r["nontrivial"]:
                rep.nontriv("jobsem:" + nt)
            shapes.add(r["shape"])
            for d in r["drift"]:
                rep.model_drift("JobSem " + d)
            for sig, detail in r["violations"]:
                report(sig, detail)
                if sem_tasks[i][1]["Recursive"]:
                    rec_confirmed = True
            if i < 2:
                rep.sample({"jobsem_behaviour": [(x["a"], x["t"]) for x in sem_tasks[i][0]]})
        rep.extra["jobsem_distinct_action_shapes"] = len(shapes)
        if rec is not None and rec.violated and not rec_confirmed and not fixed:
            rep.model_drift("JobSem (Recursive) violates %s but the real class showed no P violation on the replayed behaviours" % rec.violated)

        # ---- (A) exhaustive results -----------------------------------------------------------
        if "sem_ex" in T:
            res = T["sem_ex"].result()
            rep.add_tlc(res, "JobSem exhaustive")
            if res.violated:
                rep.violation("model:JobSem:" + res.violated, {"cex": res.cex})
            tlc.require_coverage(res, JOBSEM_ACTIONS, "JobSem")
            for name, prop in (("sem_live", "NoLostWakeup"), ("sem_live_term", "WaiterServed/Termination")):
                r2 = T[name].result()
                rep.add_tlc(r2, "JobSem liveness " + prop)
                if r2.violated:
                    rep.violation("model:JobSem:liveness:" + prop, {"cex": r2.cex[-6:]})
            for r in ("ReachHandover", "ReachTwoWoken", "ReachChildStarves"):
                r2 = T["sem_reach_" + r].result()
                if r2.violated != r:
                    raise tlc.TlcError("vacuity: JobSem %s not reachable" % r)
        for name in ("sem_rec_fixed", "sem_fixed"):
            if name in T:
                r2 = T[name].result()
                rep.add_tlc(r2, "JobSem with FixHandover (%s)" % name)
                rep.extra["jobsem_%s_violates" % name] = r2.violated
        if "sched_ex" in T:
            res = T["sched_ex"].result()
            rep.add_tlc(res, "BobSched exhaustive")
            if res.violated:
                rep.violation("model:BobSched:" + res.violated, {"cex": res.cex})
            r2 = T["sched_live"].result()
            rep.add_tlc(r2, "BobSched liveness Termination")
            if r2.violated:
                rep.violation("model:BobSched:liveness", {"cex": r2.cex[-6:]})
            r2 = T["sched_reach"].result()
            want = ["ReachFullParallel", "ReachKeepGoingPartial", "ReachSharedCheckout", "ReachStartAfterFailure"]
            if violated_set(r2) != want:
                raise tlc.TlcError("vacuity: BobSched reachability %s != %s" % (violated_set(r2), want))
            for w, inv in (("Deps", "Independence"), ("Once", "NoDoubleExec"), ("Bound", "Bounded")):
                r2 = T["sched_weak_" + w].result()
                if r2.violated != inv:
                    raise tlc.TlcError("vacuity: weakened scheduler (%s) does not violate %s" % (w, inv))

        # ---- PART 2 results -------------------------------------------------------------------
        if scen_async is not None:
            results = scen_async.get(LOAD_TIMEOUT * 6)
            for r, (b, rnd) in zip(results, scen):
                r["dagdef"] = b[0]["def"]
                rep.evaluations += len(r.get("executed", []))
                fk = sorted({s.split(".")[0] for s in r["failset"]})
                rep.nontriv("sched:%s:j%d:kg%d:fail%s:par%d" % (r["dag"], r["jobs"], r["kg"], "".join(fk), r["maxpar"]))
                for sig, detail in r["violations"]:
                    report(sig, detail)
            rejected = validate_sched_traces(results, rep, report) if results else 0
            rep.traces += len(results)
            rep.extra["sched_scenarios"] = [{k: r.get(k) for k in ("dag", "jobs", "kg", "failset", "rc", "maxpar", "wall")} for r in results]
            rep.extra["sched_traces_rejected"] = rejected
            for r in results[:2]:
                rep.sample({"sched_trace": r["trace"]})
        pool.close()
        pool.join()
    finally:
        kill_registered_sessions()
        pool.terminate()
        tpool.shutdown(wait=False, cancel_futures=True)
    rep.extra["violation_signatures"] = dict(sigcount)
    if rep.drift:
        rep.level = "exploration"
    return rep.finish()


if __name__ == "__main__":
    evidence.main_wrapper(main)
