"""S3 (C15): `bob clean --shared` / LocalShare.gc on a share directory that exists but has no repo.json yet
(first installation still in progress, or it failed) raises a raw FileNotFoundError.
Exit status 1 = defect present, 0 = not present.   Run: /venv/bin/python checks/repro_c15_gc_empty_store.py"""
import os, sys, tempfile, shutil
sys.path.insert(0, os.path.join(os.environ.get("VERIF_REPO", "/repo"), "pym"))
from bob.share import LocalShare

root = tempfile.mkdtemp(prefix="repro-c15-")
try:
    store = os.path.join(root, "store")
    # what installSharedPackage has done right after share.py:260 (makedirs) and before share.py:304 (__addPackage)
    os.makedirs(os.path.join(store, "11", "11"))
    bad = 0
    for args in ((False, True), (False, False), (True, False)):
        try:
            r = LocalShare({"path": store, "quota": 0}).gc(*args)
            print("gc%r on a store without repo.json -> %r" % (args, r))
        except Exception as e:
            print("gc%r on a store without repo.json RAISED %s: %s" % (args, type(e).__name__, e))
            bad = 1
    sys.exit(bad)
finally:
    shutil.rmtree(root, ignore_errors=True)
