"""Minimal reproduction of the C06 finding `sched:keep-going-incomplete:fail-c`.

    /venv/bin/python -m checks.repro_c06_keepgoing_checkout       (exit 1 = defect present)

Project: r depends on a and b (independent of each other).  `bob dev r -k -j 2`:
  * if the BUILD step of a fails, b is still built completely (keep-going confines the failure to a and r);
  * if the CHECKOUT step of a fails, NOTHING but checkouts is executed: b is not built although it does not
    depend on a.
Cause: builder.py _cookStep, package-step branch (1103-1112): `_getBuildId(step)` is awaited BEFORE
`_cook(step.getAllDepSteps())`.  The build-id of the root package needs the result hash of every
transitive checkout (__getCheckoutStepBuildId 1796-1824 cooks it); one failing checkout makes _getBuildId
of the root raise, the root's _cookStep ends before any dependency was cooked.  With --keep-going the
property demands that a failure confines itself to the dependants of the failing package.
"""
import os
import shutil
import sys

from vf import common, bobrun, projgen


def recipe(name, deps=(), co="true", bu="true"):
    y = []
    if name == "r":
        y.append("root: true")
    if deps:
        y.append("depends: [%s]" % ", ".join(deps))
    y.append("checkoutScript: " + projgen.yaml_block("echo src > src.txt\n%s\n" % co))
    y.append("buildScript: " + projgen.yaml_block("%s\ncp \"$1\"/src.txt out.txt\n" % bu))
    y.append("packageScript: " + projgen.yaml_block("cp \"$1\"/out.txt .\n"))
    return "\n".join(y) + "\n"


def build(fail):
    work = common.scratch("vf-c06-repro-")
    files = {"config.yaml": projgen.CONFIG,
             "recipes/r.yaml": recipe("r", ("a", "b")),
             "recipes/a.yaml": recipe("a", co="exit 1" if fail == "checkout" else "true",
                                      bu="exit 1" if fail == "build" else "true"),
             "recipes/b.yaml": recipe("b")}
    bobrun.write_files(work, files)
    res = bobrun.run_bob(work, ["dev", "r", "-k", "-j", "2"], record=False, timeout=3000)
    built_b = os.path.exists(os.path.join(work, "dev/dist/b/1/workspace/out.txt"))
    shutil.rmtree(work, ignore_errors=True)
    return res.rc, built_b


def main():
    rc1, b1 = build("build")
    rc2, b2 = build("checkout")
    print("build step of a fails   : rc=%s, independent package b built: %s" % (rc1, b1))
    print("checkout step of a fails: rc=%s, independent package b built: %s" % (rc2, b2))
    bad = b1 and not b2
    print("DEFECT REPRODUCED (keep-going does not confine a checkout failure)" if bad else "not reproduced")
    return 1 if bad else 0


if __name__ == "__main__":
    sys.exit(main())
