"""Stand-alone reproduction for C04: parts of a package that are NOT covered by the result id of its
package step are taken from whichever variant of the recipe was computed FIRST.

Recipe.prepare ends with   reusableCorePackage = self.__corePackagesById.setdefault(pid, p)
(input.py 2922-2925), pid = packageCoreStep.getResultId().  The result id (971-1031) covers the
steps, provided env/tools/deps/sandbox, alias name and shared flag, but neither the
metaEnvironment nor dependencies that are not used at all (`use: []`).  Two variants that differ
only there are merged into the first one, although the memo lookup (which does compare the touched
variables) correctly decided that they differ.

    lib:  metaEnvironment: {FLAVOUR: "${B}"}
          depends: [{name: extra, use: [], if: "${B}"}]
    top1: depends lib with B=0          top2: depends lib with B=1

Expected: top2/lib has FLAVOUR=1 and the child `extra`.  Observed: FLAVOUR=0, no child.

usage: /venv/bin/python checks/repro_c04_metaenv.py      (uses $VERIF_REPO or /repo, read-only)
exit status 1 = the computation with in-memory reuse differs from the one without (defect present).
"""
import os
import shutil
import subprocess
import sys
import tempfile

FILES = {
    "config.yaml": 'bobMinimumVersion: "0.25"\n',
    "recipes/extra.yaml": 'packageScript: "echo extra"\n',
    "recipes/lib.yaml": ('metaEnvironment:\n  FLAVOUR: "${B}"\n'
                         'depends:\n  - name: extra\n    use: []\n    if: "${B}"\n'
                         'buildScript: "echo lib"\npackageScript: "echo lib"\n'),
    "recipes/top1.yaml": ('root: true\ndepends:\n  - name: lib\n    environment: {B: "0"}\n'
                          'buildScript: "echo top1"\npackageScript: "echo top1"\n'),
    "recipes/top2.yaml": ('root: true\ndepends:\n  - name: lib\n    environment: {B: "1"}\n'
                          'buildScript: "echo top2"\npackageScript: "echo top2"\n'),
}


def walk(p, depth=0):
    out = ["  " * depth + ("/".join(p.getStack()) or "<root>") + "  metaEnv=" + repr(dict(p.getMetaEnv()))]
    for d in p.getDirectDepSteps():
        out += walk(d.getPackage(), depth + 1)
    return out


def compute(mode):
    import bob
    import bob.input as bi
    bob.DEBUG["ngd"] = True
    bob.DEBUG["pkgck"] = mode == "pkgck"
    for f in os.listdir("."):
        if f.startswith(".bob-"):
            os.unlink(f)
    if mode == "noreuse":
        bi.PackageMatcher.matches = lambda self, *a, **kw: False

        class NoDedup(dict):
            def setdefault(self, key, value):
                return value
        orig = bi.Recipe.__init__

        def init(self, *a, **kw):
            orig(self, *a, **kw)
            self._Recipe__corePackagesById = NoDedup()
        bi.Recipe.__init__ = init
    rs = bi.RecipeSet()
    rs.parse()
    try:
        ps = rs.generatePackages(lambda s, m: "work")
        return "\n".join(walk(ps.getRootPackage()))
    except BaseException as e:
        return "EXCEPTION %s: %r" % (type(e).__name__, e)


def main():
    sys.dont_write_bytecode = True
    repo = os.environ.get("VERIF_REPO", "/repo")
    sys.path.insert(0, os.path.join(repo, "pym"))
    d = tempfile.mkdtemp(prefix="vf-c04-repro-")
    cwd = os.getcwd()
    res = {}
    try:
        for rel, text in FILES.items():
            os.makedirs(os.path.dirname(os.path.join(d, rel)) or d, exist_ok=True)
            with open(os.path.join(d, rel), "w") as f:
                f.write(text)
        os.chdir(d)
        for m in ("reuse", "pkgck", "noreuse"):      # noreuse last: it patches the classes
            res[m] = compute(m)
        for f in os.listdir("."):
            if f.startswith(".bob-"):
                os.unlink(f)
        env = {"PATH": "/venv/bin:/usr/bin:/bin", "HOME": "/nonexistent", "PYTHONDONTWRITEBYTECODE": "1",
               "PYTHONPATH": os.path.join(repo, "pym"), "LANG": "C.UTF-8", "TERM": "dumb"}
        for argv in (["query-meta", "top1/lib"], ["query-meta", "top2/lib"], ["ls", "-r"]):
            cli = subprocess.run([sys.executable, os.path.join(repo, "bob"), "--debug=ngd"] + argv, cwd=d, env=env,
                                 stdout=subprocess.PIPE, stderr=subprocess.STDOUT, text=True, timeout=600)
            res["cli: bob %s (rc=%d)" % (" ".join(argv), cli.returncode)] = cli.stdout[-700:]
    finally:
        os.chdir(cwd)
        shutil.rmtree(d, ignore_errors=True)
    for m, r in res.items():
        print("== %s\n%s" % (m, r))
    same = res["reuse"] == res["noreuse"]
    print("with in-memory reuse == without any reuse:", same)
    return 0 if same else 1


if __name__ == "__main__":
    sys.exit(main())
