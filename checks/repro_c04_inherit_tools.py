"""Stand-alone reproduction for C04: a memoised package is reused under a different set of ambient
(untouched) tools, but the reference to its `inherit: false` dependency carries a tool diff that
names every tool that was ambient when the package was FIRST computed.

    x:  depends: [{name: d, inherit: false}]      (x itself uses no tool)
    p1: tools cc + ld forwarded, depends on x     -> x computed here: diff for d = {cc: None, ld: None}
    p2: tool cc forwarded only, depends on x      -> memo hit (no tool was touched), same CorePackage

Dereferencing p2/x/d applies `del tools['ld']` to {cc} (input.py CoreRef.refDeref 528-532).
The same happens with only the memo lookup disabled, because the recomputed x has the same result
id and Recipe.__corePackagesById (2922-2925) hands out the FIRST CorePackage again.  With both
in-memory tables disabled the project is fine.

usage: /venv/bin/python checks/repro_c04_inherit_tools.py      (uses $VERIF_REPO or /repo, read-only)
exit status 1 = the computation with in-memory reuse differs from the one without (defect present).
"""
import os
import shutil
import sys
import tempfile

FILES = {
    "config.yaml": 'bobMinimumVersion: "0.25"\n',
    "recipes/tpa.yaml": 'packageScript: "echo a"\nprovideTools: {cc: "bin"}\n',
    "recipes/tpb.yaml": 'packageScript: "echo b"\nprovideTools: {ld: "bin"}\n',
    "recipes/d.yaml": 'packageScript: "echo d"\n',
    "recipes/x.yaml": 'depends:\n  - name: d\n    inherit: false\nbuildScript: "echo x"\npackageScript: "echo x"\n',
    "recipes/p1.yaml": ('root: true\ndepends:\n  - {name: tpa, use: [tools], forward: true}\n'
                        '  - {name: tpb, use: [tools], forward: true}\n  - x\n'
                        'buildScript: "echo p1"\npackageScript: "echo p1"\n'),
    "recipes/p2.yaml": ('root: true\ndepends:\n  - {name: tpa, use: [tools], forward: true}\n  - x\n'
                        'buildScript: "echo p2"\npackageScript: "echo p2"\n'),
}


def walk(p, depth=0):
    out = ["  " * depth + ("/".join(p.getStack()) or "<root>") + "  ambient tools: " +
           ",".join(sorted(p._getAllTools().keys()))]
    for d in p.getDirectDepSteps():
        out += walk(d.getPackage(), depth + 1)
    return out


def compute(mode):
    import bob
    from bob.input import RecipeSet, PackageMatcher
    bob.DEBUG["ngd"] = True
    bob.DEBUG["pkgck"] = mode == "pkgck"
    for f in os.listdir("."):
        if f.startswith(".bob-"):
            os.unlink(f)
    if mode in ("nomemo", "noreuse"):
        PackageMatcher.matches = lambda self, *a, **kw: False
    if mode == "noreuse":
        # also switch off the second in-memory table (Recipe.__corePackagesById, input.py 2922-2925)
        import bob.input as bi

        class NoDedup(dict):
            def setdefault(self, key, value):
                return value
        orig = bi.Recipe.__init__

        def init(self, *a, **kw):
            orig(self, *a, **kw)
            self._Recipe__corePackagesById = NoDedup()
        bi.Recipe.__init__ = init
    rs = RecipeSet()
    rs.parse()
    try:
        ps = rs.generatePackages(lambda s, m: "work")
        return "\n".join(walk(ps.getRootPackage()))
    except BaseException as e:
        import traceback
        return "EXCEPTION %s: %r\n%s" % (type(e).__name__, e, "".join(traceback.format_exc().splitlines(True)[-8:]))


def main():
    sys.dont_write_bytecode = True
    sys.path.insert(0, os.path.join(os.environ.get("VERIF_REPO", "/repo"), "pym"))
    d = tempfile.mkdtemp(prefix="vf-c04-repro-")
    cwd = os.getcwd()
    try:
        for rel, text in FILES.items():
            os.makedirs(os.path.dirname(os.path.join(d, rel)) or d, exist_ok=True)
            with open(os.path.join(d, rel), "w") as f:
                f.write(text)
        os.chdir(d)
        res = {m: compute(m) for m in ("memo", "pkgck", "nomemo", "noreuse")}   # patches accumulate: keep this order
        # the command line tool on the same project
        import subprocess
        repo = os.environ.get("VERIF_REPO", "/repo")
        env = {"PATH": "/venv/bin:/usr/bin:/bin", "HOME": "/nonexistent", "PYTHONDONTWRITEBYTECODE": "1",
               "PYTHONPATH": os.path.join(repo, "pym"), "LANG": "C.UTF-8", "TERM": "dumb"}
        for f in os.listdir("."):       # the last computation above left a (correct) package pickle behind
            if f.startswith(".bob-"):
                os.unlink(f)
        for argv in (["query-path", "p1/x/d"], ["query-path", "p2/x/d"], ["dev", "-n", "p2"]):
            cli = subprocess.run([sys.executable, os.path.join(repo, "bob"), "--debug=ngd"] + argv, cwd=d, env=env,
                                 stdout=subprocess.PIPE, stderr=subprocess.STDOUT, text=True, timeout=600)
            res["cli: bob %s (rc=%d)" % (" ".join(argv), cli.returncode)] = cli.stdout[-700:]
    finally:
        os.chdir(cwd)
        shutil.rmtree(d, ignore_errors=True)
    for m, r in res.items():
        print("== %s\n%s" % (m, r))
    same = res["memo"] == res["noreuse"]
    print("with in-memory reuse == without any reuse:", same)
    return 0 if same else 1


if __name__ == "__main__":
    sys.exit(main())
