"""C01  Incremental build equals clean build; an unchanged rebuild executes nothing.

(A) TLC checks specs/BobBuild.tla exhaustively without aborts over all edit histories within the
    bounds (script text, variable value, consumed-variable list, dependency add/remove, provided
    variable, source add/modify/delete, reverts) with an invocation after any subset of edits.
(B) Behaviours replayed into real `bob dev` (develop) and `bob build` (release) runs, -j1 and -j4:
    counterexamples of weakened mechanism models (no prune on digest change, digest ignores
    variables, inputs ignore dependency result, package prune ignores digest) plus -simulate runs.
Oracle (P): after every successful invocation every dist tree equals that of a real clean build
of the same project state in an empty workspace; a repeated invocation of an unchanged project
runs no build or package script.
"""
import multiprocessing as mp
import random
import shutil

from vf import common, tlc, evidence
from checks import bobbuild_common as bc
from checks.c05_abort import select, ACTIONS

PROP = "C01"
WEAK = ["NoPruneOnDigestChange", "DigestIgnoresVars", "InputsIgnoreDep", "PrepIgnoresDigest", "ImportKeepsOld", "DigestIgnoresTool",
        "BoSkipStoresState"]


def replay_task(arg):
    i, hist, origin, release, jobs, cache = arg[:6]
    define = arg[6] if len(arg) > 6 else False
    prune = arg[7] if len(arg) > 7 else True
    work = common.scratch("vf-c01-")
    try:
        r = bc.BehaviourReplay(hist, work, bc.Oracle(cache), release=release, jobs=jobs, define=define, prune=prune).run()
    finally:
        shutil.rmtree(work, ignore_errors=True)
    return {"i": i, "origin": origin, "violations": r.violations, "drift": r.drift, "invocations": r.invocations,
            "nontrivial": sorted(r.nontrivial), "shape": bc.shape_of(hist), "oracle_builds": r.oracle.builds,
            "release": release, "jobs": jobs, "define": define, "prune": prune}


def replay_file(path):
    """bin/check C01 --replay FILE: re-run the stored behaviour against the current tree"""
    import json
    d = json.load(open(path))["detail"]
    cache = common.scratch("vf-c01-oracle-")
    r = replay_task((0, d["hist"], d.get("origin", "replay"), d.get("mode") == "release", d.get("jobs", 1), cache,
                     bool(d.get("define")), d.get("prune", True)))
    for sig, detail in r["violations"]:
        print("VIOLATION property=%s replay=%s" % (PROP, path))
        print("  signature: %s" % sig)
    print("replayed %s: %d violations, drift=%s" % (r["shape"], len(r["violations"]), r["drift"]))
    return 1 if r["violations"] else 0


def main():
    a = common.args(PROP)
    if a.replay:
        return replay_file(a.replay)
    rep = evidence.Report(PROP, a.tier, a.seed)
    quick = a.tier == "quick"
    rng = random.Random(a.seed)
    rep.rule = ("behaviour = edit/invocation history from TLC (counterexamples of weakened mechanism models + -simulate "
                "runs) replayed with real bob invocations in develop/release mode, -j1/-j4, plain/--build-only/--force; "
                "non-trivial = distinct (edit-knob sequence, mode, jobs) shapes; evaluations = real bob invocations incl. "
                "oracle clean builds")
    rep.assumptions = ["step scripts are deterministic functions of their declared inputs (generated that way)",
                       "import SCM sources (with prune), two packages; --build-only invocations are not judged themselves "
                       "(no up-to-date promise), only what follows them"]
    num = 100 if quick else 1200
    jobs = [("main", "BobBuild", "BobBuild_c01.cfg" if quick else "BobBuild_c01_thorough.cfg", dict(coverage=True, timeout=3000)),
            # command line variants (BobBuild.tla Flags): plain / --build-only / --force invocations mixed in one history
            ("flags", "BobBuild", "BobBuild_c01_flags.cfg" if quick else "BobBuild_c01_flags_thorough.cfg", dict(coverage=True, timeout=3000))]
    jobs += [("weak:" + w, "BobBuild", "BobBuild_c01_weak_%s.cfg" % w, dict(timeout=1800)) for w in WEAK]
    jobs += [("gen", "BobBuild", "BobBuild_c01_gen.cfg", dict(workers=1, simulate="num=%d" % num, depth=260, seed=a.seed + 1, timeout=900)),
             ("genflags", "BobBuild", "BobBuild_c01_gen_flags.cfg",
              dict(workers=1, simulate="num=%d" % (60 if quick else 600), depth=300, seed=a.seed + 7, timeout=900))]
    out = tlc.run_many(jobs, parallel=5)
    res = out["main"]
    rep.add_tlc(res, "BobBuild exhaustive, no aborts")
    if res.violated:
        rep.violation("model:" + res.violated, {"cex": [c[0] for c in res.cex]})
    tlc.require_coverage(res, [x for x in ACTIONS if x not in ("Kill", "BuRunFail", "BuRunKilled", "PkRunFail", "PkRunKilled", "CoRunFail",
                                                              "CoRunKilled", "PrepInval", "BuInval")], "BobBuild_c01.cfg")
    resf = out["flags"]
    rep.add_tlc(resf, "BobBuild exhaustive, invocations plain/--build-only/--force")
    if resf.violated:
        rep.violation("model:flags:" + resf.violated, {"cex": [c[0] for c in resf.cex]})
    tlc.require_coverage(resf, ["CoBoUpdate", "BuSkip", "PkSkip", "BuRunOk", "PkRunOk"], "BobBuild_c01_flags.cfg")
    behaviours = []
    for w in WEAK:
        r = out["weak:" + w]
        if not r.printed:
            raise tlc.TlcError("weakened model %s produced no counterexample (vacuous weakening)" % w)
        rep.add_tlc(r, "BobBuild Weak={%s} (counterexample generation)" % w)
        if w == "ImportKeepsOld":
            # every single/double source edit of the import SCM (add, modify, modify in a sub-directory, delete)
            only_src = [h for h in r.printed if all(x["a"] != "Edit" or (x["knob"] == "src" and x["p"] == "lib") for x in h)]
            sel = select(only_src, 14 if quick else 40, rng)
        else:
            sel = select(r.printed, 6 if quick else 30, rng)
        rep.extra.setdefault("weakened_model_counterexamples", {})[w] = {"found": len(r.printed), "replayed": len(sel)}
        behaviours += [(h, "cex:" + w) for h in sel]
    g = out["gen"]
    sel = select(g.printed, 28 if quick else 300, rng, need=lambda h: sum(1 for x in h if x["a"] == "End") >= 2)
    behaviours += [(h, "simulate") for h in sel]
    rep.extra["simulated"] = {"generated": len(g.printed), "replayed": len(sel)}
    gf = out["genflags"]
    flagged = lambda h: (any(x["a"] == "Begin" and x.get("flag", "plain") != "plain" for x in h)
                         and sum(1 for x in h if x["a"] == "End") >= 2)
    self = select(gf.printed, 10 if quick else 150, rng, need=flagged)
    behaviours += [(h, "simulate-flags") for h in self]
    rep.extra["simulated_flags"] = {"generated": len(gf.printed), "replayed": len(self)}
    cache = common.scratch("vf-c01-oracle-")
    tasks = []
    for i, (h, origin) in enumerate(behaviours):
        release = rng.random() < 0.3
        jobs = 4 if rng.random() < 0.3 else 1
        define = rng.random() < 0.3
        # import SCM without prune: only where no source file is ever deleted (documented caveat otherwise)
        prune = not (bc.lib_never_deletes(h) and (rng.random() < 0.5 or origin == "cex:ImportKeepsOld"))
        tasks.append((i, h, origin, release, jobs, cache, define, prune))
    with mp.get_context("fork").Pool(min(8, common.workers())) as pool:
        for r in pool.imap_unordered(replay_task, tasks):
            rep.traces += 1
            rep.evaluations += r["invocations"] + r["oracle_builds"]
            rep.nontriv("%s|%s|j%d|D%d|P%d" % (r["shape"], "release" if r["release"] else "dev", r["jobs"], r["define"], r["prune"]))
            for d in r["drift"]:
                rep.model_drift("%s: %s" % (r["shape"], d))
            for sig, detail in r["violations"]:
                detail["origin"] = r["origin"]
                rep.violation(sig, detail)
            if r["i"] % 30 == 0:
                rep.sample({"origin": r["origin"], "behaviour": r["shape"], "release": r["release"], "jobs": r["jobs"]})
    if rep.drift:
        rep.level = "exploration"
    return rep.finish()


if __name__ == "__main__":
    evidence.main_wrapper(main)
