"""C11  Directory hashes are content exact and cache transparent.

(A) TLC checks specs/DirHash.tla exhaustively: every sequence of <= 3 (thorough: <= 4) tree
    modifications from several base trees with a cached hash after each step; the cached hash is
    modelled step-wise after FileIndex (merge-walk of the old index and the sorted directory walk).
    Invariants CacheTransparent, IndexSorted, IndexNeverLies, OutSorted; all pairs (old index, tree)
    (DirHash_merge.cfg); coverage of every action (DirHash_cov.cfg) + reachability (vacuity) configs.
(B) TLC generates behaviours (exhaustive enumeration of all 2-step behaviours + `-simulate` walks with
    8 modifications, up to 2 per cached hash).  Each one is replayed on a REAL directory with the real
    bob.utils.hashDirectory: after every modification hashDirectory(path) is compared with the SHA-1
    of an independent canonical serialisation of the tree; at every Hash action
    hashDirectory(path, cache) is compared with hashDirectory(path) and the canonical value; the
    records of the real cache file are compared with the model's index (drift only).
    Every harness edit sets the mtime from a strictly increasing virtual clock (1 ns steps) except
    ReplaceSameMtime which keeps size and mtime and changes the inode (cp -p over a file).
(C) content exactness: TLC enumerates the bounded tree universe; every tree is built for real under
    several instantiations of the symbolic contents/modes/targets, plus name extras, plus variations
    that must not matter (timestamps, ownership when root, .git/.svn directories on every level,
    rebuild).  All real hashes are bucketed: equal trees <=> equal hashes.  Probes for the ignore
    lists of the code (what exactly is skipped, on which level).

Verdict (P layer): cached != uncached, hash != canonical hash, or a bucket mismatch on real
executions.  Differences between the real cache file and the model's index are model_drift.
"""
import hashlib
import itertools
import json
import logging
import multiprocessing as mp
import os
import random
import shutil
import struct
import sys
import time
import threading

from vf import common, tlc, evidence

PROP = "C11"
T0 = 1_600_000_000_000_000_000          # virtual clock origin (ns); model stat s <-> mtime T0 + s
TOP = ("a", "a.b", "a0")
SUB = ("a/x", "a/y")
ACTIONS = ["CreateFile", "CreateLink", "MkDir", "Modify", "Rewrite", "ReplaceSameMtime", "RewriteSameMtime", "Chmod", "Delete",
           "Rename", "ReplaceByFile", "ReplaceByLink", "ReplaceByDir", "HashOpen", "MatchRead", "MatchEOF",
           "MatchStop", "CheckHitQuiet", "CheckHitWrite", "CheckMissFirst", "CheckMissLater", "HashClose"]
REACH = ["ReachTailCopy", "ReachStaleSkip", "ReachSlashOrder", "ReachDropLast"]

# Instantiations of the symbolic values of the model.  Contents 1 and 2 have equal size, 3 differs
# (SizeOf in the spec).  "big" differs only behind the first read buffer of hashFile.
REAL = [
    {"name": "small", "content": {1: b"one\n", 2: b"two\n", 3: b"three!\n"},
     "mode": {1: 0o644, 2: 0o755}, "dmode": {1: 0o755, 2: 0o700}, "target": {1: b"a.b", 2: b"no/where"}},
    {"name": "perm", "content": {1: b"x", 2: b"y", 3: b""},
     "mode": {1: 0o644, 2: 0o600}, "dmode": {1: 0o755, 2: 0o750}, "target": {1: b"a", 2: b"../a0"}},
    {"name": "big", "content": {1: b"A" * 20000 + b"1", 2: b"A" * 20000 + b"2", 3: b"A" * 16384},
     "mode": {1: 0o640, 2: 0o755}, "dmode": {1: 0o700, 2: 0o775}, "target": {1: b"a/x", 2: b"a/y"}},
]

# The property: "ignoring timestamps, ownership and SCM metadata directories"
SCM_DIRS = (b".git", b".svn")


class Stop(Exception):
    pass


class Harness(Exception):
    """the harness could not establish its own preconditions (machinery failure, never a verdict)"""


# ----------------------------------------------------------------------------
# abstract concrete trees: {name(bytes): ("file", data, perm) | ("link", target) | ("dir", perm, {..})}

def concretise(mt, R):
    def ent(e, kids):
        if e[0] == "file":
            return ("file", R["content"][e[1]], R["mode"][e[2]])
        if e[0] == "link":
            return ("link", R["target"][e[1]])
        return ("dir", R["dmode"][e[1]], kids)
    top = {}
    for p in TOP:
        if mt[p][0] == "none":
            continue
        kids = {}
        if p == "a" and mt[p][0] == "dir":
            for q in SUB:
                if mt[q][0] != "none":
                    kids[q[2:].encode()] = ent(mt[q], {})
        top[p.encode()] = ent(mt[p], kids)
    return top


def tree_key(children):
    """abstract identity of a tree as the property defines it (SCM metadata directories dropped)"""
    out = []
    for name in sorted(children):
        n = children[name]
        if n[0] == "dir":
            if name in SCM_DIRS:
                continue
            out.append((name, "dir", n[1], tree_key(n[2])))
        elif n[0] == "file":
            out.append((name, "file", n[2], n[1]))
        else:
            out.append((name, "link", n[1]))
    return tuple(out)


# ----------------------------------------------------------------------------
# independent canonical serialisation (written from the definition, not from DirHasher):
#   digest(file) = SHA1(content), digest(link) = SHA1(target), digest(dir) = SHA1(blob) where blob is the
#   concatenation over the entries, ordered bytewise by name (directories compared as name + "/"), of
#   st_mode as native 32 bit unsigned + digest(entry) + name (+ "/" for directories)

S_IFREG, S_IFLNK, S_IFDIR = 0o100000, 0o120000, 0o040000


def canon_mode(n):
    if n[0] == "file":
        return S_IFREG | n[2]
    if n[0] == "link":
        return S_IFLNK | 0o777
    return S_IFDIR | n[1]


def canon_digest(n):
    if n[0] == "dir":
        return canon_dir(n[2])
    return hashlib.sha1(n[1]).digest()


def canon_dir(children):
    items = []
    for name, n in children.items():
        if n[0] == "dir":
            if name in SCM_DIRS:
                continue
            items.append((name + b"/", n))
        else:
            items.append((name, n))
    items.sort(key=lambda kv: kv[0])
    blob = b"".join(canon_mode(n).to_bytes(4, sys.byteorder) + canon_digest(n) + key for key, n in items)
    return hashlib.sha1(blob).digest()


# ----------------------------------------------------------------------------
# real file system helpers

def set_time(path, ns):
    os.utime(path, ns=(T0, ns), follow_symlinks=False)
    if os.lstat(path).st_mtime_ns != ns:
        raise Harness("file system does not keep ns timestamps: %r" % path)


def remove(path):
    if os.path.isdir(path) and not os.path.islink(path):
        os.chmod(path, 0o700)
        shutil.rmtree(path)
    else:
        os.unlink(path)


def make_node(path, n, tick):
    if n[0] == "file":
        with open(path, "wb") as f:
            f.write(n[1])
        os.chmod(path, n[2])
    elif n[0] == "link":
        os.symlink(n[1], path)
    else:
        os.mkdir(path)
        build(path, n[2], tick)
        os.chmod(path, n[1])
    set_time(path, T0 + next(tick))


def build(root, children, tick):
    for name, n in children.items():
        make_node(os.path.join(root, name), n, tick)


def project(root):
    """what is really on disk, in the abstract vocabulary (nothing ignored)"""
    out = {}
    with os.scandir(root) as it:
        for de in it:
            st = de.stat(follow_symlinks=False)
            perm = st.st_mode & 0o7777
            p = os.path.join(root, de.name)
            if de.is_symlink():
                out[de.name] = ("link", os.readlink(p))
            elif de.is_dir(follow_symlinks=False):
                out[de.name] = ("dir", perm, project(p))
            elif de.is_file(follow_symlinks=False):
                with open(p, "rb") as f:
                    out[de.name] = ("file", f.read(), perm)
            else:
                raise Harness("unexpected file type %r" % p)
    return out


class LogTrap(logging.Handler):
    """keeps warnings of bob.utils off the terminal (a changed tree under test may emit them)"""

    def __init__(self):
        super().__init__(logging.INFO)
        self.msgs = []

    def emit(self, record):
        if len(self.msgs) < 100:
            self.msgs.append(record.getMessage())


_trap = None


def bob_utils():
    global _trap
    import bob.utils as bu
    if _trap is None:
        _trap = LogTrap()
        lg = logging.getLogger("bob.utils")
        lg.addHandler(_trap)
        lg.setLevel(logging.INFO)
        lg.propagate = False
    return bu


def read_cache(path):
    """records of the real cache file (format of FileIndex: 'BOB2' + '=qqQQLQ20sH' + name)"""
    if not os.path.exists(path):
        return []
    with open(path, "rb") as f:
        data = f.read()
    if data[:4] != b"BOB2":
        return [("?bad-signature",)]
    fmt = "=qqQQLQ20sH"
    sz = struct.calcsize(fmt)
    pos, recs = 4, []
    while pos + sz <= len(data):
        ctime, mtime, dev, ino, mode, size, digest, nlen = struct.unpack(fmt, data[pos:pos + sz])
        name = data[pos + sz:pos + sz + nlen]
        pos += sz + nlen
        recs.append((name, (ino, ctime, mtime, size, mode), digest))
    if pos != len(data):
        recs.append(("?trailing-garbage",))
    return recs


def kinds_of(children):
    ks = set()
    for n in children.values():
        ks.add(n[0])
        if n[0] == "dir":
            ks |= kinds_of(n[2])
    return ks


# ----------------------------------------------------------------------------
# (B) replay of one TLC behaviour

class Replay:
    def __init__(self, hist, R, work):
        self.hist, self.R = hist, R
        self.root = os.path.join(work, "tree").encode()
        self.cache = os.path.join(work, "cache.bin")
        os.mkdir(self.root)
        self.bu = bob_utils()
        self.violations, self.drift, self.nontrivial = [], [], set()
        self.evals = 0
        self.statmap = {}
        self.dmap = {}
        for c, b in R["content"].items():
            self.dmap[hashlib.sha1(b).digest()] = ["F", c]
        for x, b in R["target"].items():
            self.dmap.setdefault(hashlib.sha1(b).digest(), ["L", x])

    def path(self, p):
        return os.path.join(self.root, p.encode())

    def viol(self, sig, **detail):
        """the first deviation ends the replay of this behaviour: later ones would be consequences"""
        detail.update(instantiation=self.R["name"], hist=self.hist)
        self.violations.append((sig, detail))
        raise Stop()

    def stamp(self, p, e):
        set_time(self.path(p), T0 + e[-1])

    def write_new(self, p, e):
        path = self.path(p)
        if e[0] == "file":
            with open(path, "wb") as f:
                f.write(self.R["content"][e[1]])
            os.chmod(path, self.R["mode"][e[2]])
            self.stamp(p, e)
        elif e[0] == "link":
            os.symlink(self.R["target"][e[1]], path)
            self.stamp(p, e)
        else:
            os.mkdir(path)
            os.chmod(path, self.R["dmode"][e[1]])

    def apply(self, act, old, new):
        a, p = act["a"], act["p"]
        path = self.path(p)
        e = new[p]
        if a in ("CreateFile", "CreateLink", "MkDir"):
            self.write_new(p, e)
        elif a in ("ReplaceByFile", "ReplaceByLink", "ReplaceByDir"):
            remove(path)
            self.write_new(p, e)
        elif a == "Modify":
            data = self.R["content"][e[1]]
            if len(data) == os.lstat(path).st_size:
                raise Harness("Modify must change the size")
            with open(path, "wb") as f:
                f.write(data)
            self.stamp(p, e)
        elif a == "Rewrite":
            data = self.R["content"][e[1]]
            ino = os.lstat(path).st_ino
            if len(data) != os.lstat(path).st_size:
                raise Harness("Rewrite must keep the size")
            with open(path, "r+b") as f:
                f.write(data)
            self.stamp(p, e)
            if os.lstat(path).st_ino != ino:
                raise Harness("Rewrite must keep the inode")
        elif a == "ReplaceSameMtime":
            data = self.R["content"][e[1]]
            st = os.lstat(path)
            if len(data) != st.st_size:
                raise Harness("ReplaceSameMtime must keep the size")
            tmp = path + b".new~"
            with open(tmp, "wb") as f:
                f.write(data)
            os.chmod(tmp, st.st_mode & 0o7777)
            os.utime(tmp, ns=(T0, st.st_mtime_ns))
            os.replace(tmp, path)
            st2 = os.lstat(path)
            if st2.st_ino == st.st_ino or st2.st_mtime_ns != st.st_mtime_ns or st2.st_size != st.st_size:
                raise Harness("ReplaceSameMtime: stat data did not change as intended")
        elif a == "RewriteSameMtime":
            data = self.R["content"][e[1]]
            st = os.lstat(path)
            if len(data) != st.st_size:
                raise Harness("RewriteSameMtime must keep the size")
            with open(path, "r+b") as f:
                f.write(data)
            # restore the old mtime; the kernel stamps the ctime with a coarse clock: repeat until it has moved
            for _ in range(2000):
                os.utime(path, ns=(T0, st.st_mtime_ns))
                st2 = os.lstat(path)
                if st2.st_ctime_ns != st.st_ctime_ns:
                    break
                time.sleep(0.001)
            if st2.st_ino != st.st_ino or st2.st_mtime_ns != st.st_mtime_ns or st2.st_size != st.st_size or st2.st_ctime_ns == st.st_ctime_ns:
                raise Harness("RewriteSameMtime: stat data did not change as intended")
        elif a == "Chmod":
            if e[0] == "file":
                os.chmod(path, self.R["mode"][e[2]])
                self.stamp(p, e)
            else:
                os.chmod(path, self.R["dmode"][e[1]])
        elif a == "Delete":
            remove(path)
        elif a == "Rename":
            q = act["q"]
            os.rename(path, self.path(q))
            if new[q][0] != "dir":
                self.stamp(q, new[q])
        else:
            raise Harness("unknown action %s" % a)

    def learn_stats(self, mt):
        for p in TOP + SUB:
            if mt[p][0] in ("file", "link"):
                st = os.lstat(self.path(p))
                self.statmap[(st.st_ino, st.st_ctime_ns, st.st_mtime_ns, st.st_size, st.st_mode)] = mt[p][-1]

    def plain_vs_canon(self, ct, where):
        h = self.bu.hashDirectory(self.root)
        self.evals += 1
        c = canon_dir(ct)
        if h != c:
            self.viol("plain-ne-canonical:" + ",".join(sorted(kinds_of(ct))), where=where,
                      real=h.hex(), canonical=c.hex(), tree=repr(ct)[:1500])
        return h

    def run(self):
        try:
            self._run()
        except Stop:
            pass
        return self

    def _run(self):
        mt = None
        burst = []
        for idx, act in enumerate(self.hist):
            a = act["a"]
            if a == "Base":
                mt = act["tree"]
                ct = concretise(mt, self.R)
                for p in TOP + SUB:          # leaves get their model stats 1..5
                    if mt[p][0] != "none":
                        self.write_new(p, mt[p])
                if ct.get(b"a", ("x",))[0] == "dir":
                    os.chmod(self.path("a"), ct[b"a"][1])
            elif a == "Hash":
                cached = self.bu.hashDirectory(self.root, self.cache)
                self.evals += 1
                plain = self.plain_vs_canon(ct, idx)
                if cached != plain:
                    self.viol("cached-ne-plain:" + "+".join(burst or ["initial"]), at=idx,
                              cached=cached.hex(), plain=plain.hex())
                # (iii) the real cache file against the model's index: drift only
                real = []
                for r in read_cache(self.cache):
                    if len(r) == 1:
                        real.append(r[0])
                    else:
                        real.append([r[0].decode(), self.statmap.get(r[1], "?"), self.dmap.get(r[2], "?")])
                model = [[r["name"], r["stat"], r["digest"]] for r in act["index"]]
                if real != model:
                    self.drift.append("after %s: real cache %s, model index %s" % ("+".join(burst), real, model))
                self.nontrivial.add("%s:%s:%d" % ("+".join(burst) or "initial",
                                                  "rewritten" if act["rewritten"] else "kept", len(model)))
                burst = []
                continue
            else:
                new = act["tree"]
                self.apply(act, mt, new)
                mt = new
                ct = concretise(mt, self.R)
                burst.append(a)
            if project(self.root) != ct:
                raise Harness("real tree differs from the model tree after step %d %s: %r vs %r" % (
                    idx, a, project(self.root), ct))
            self.learn_stats(mt)
            self.plain_vs_canon(ct, idx)
        return self


def replay_task(arg):
    i, hist, ri = arg
    work = common.scratch("vf-c11-")
    try:
        r = Replay(hist, REAL[ri], work).run()
    finally:
        shutil.rmtree(work, ignore_errors=True)
    return {"i": i, "violations": r.violations, "drift": r.drift, "evals": r.evals,
            "nontrivial": sorted(r.nontrivial)}


# ----------------------------------------------------------------------------
# (C) content exactness

def vary(root, ct, kind, rng):
    """in-place variation that must not change the hash; returns the (possibly extended) tree"""
    if kind == "times":
        for dp, dns, fns in os.walk(root, topdown=False):
            for n in dns + fns:
                p = os.path.join(dp, n)
                os.utime(p, ns=(T0 - rng.randrange(10**12), T0 + rng.randrange(10**15)), follow_symlinks=False)
        return ct
    if kind == "owner":
        for dp, dns, fns in os.walk(root):
            for n in dns + fns:
                os.lchown(os.path.join(dp, n), 4242, 4343)
        return ct
    if kind in ("scm-top", "scm-nested"):
        tick = itertools.count(5000)
        meta = {b"HEAD": ("file", b"ref: %d\n" % rng.randrange(1000), 0o644),
                b"objects": ("dir", 0o755, {b"pack": ("file", b"\0" * rng.randrange(50), 0o444)}),
                b"a": ("link", b"HEAD")}
        ct = dict(ct)
        if kind == "scm-top":
            name = rng.choice(SCM_DIRS)
            ct[name] = ("dir", 0o755, meta)
            make_node(os.path.join(root, name), ct[name], tick)
        else:
            hit = False
            for n in sorted(ct):
                if ct[n][0] == "dir" and n not in SCM_DIRS:
                    name = rng.choice(SCM_DIRS)
                    kids = dict(ct[n][2])
                    kids[name] = ("dir", 0o700, meta)
                    os.chmod(os.path.join(root, n), 0o700)
                    make_node(os.path.join(root, n, name), kids[name], tick)
                    os.chmod(os.path.join(root, n), ct[n][1])
                    ct[n] = ("dir", ct[n][1], kids)
                    hit = True
            if not hit:
                return None
        return ct
    raise Harness(kind)


def bucket_task(arg):
    """build trees for real, hash them (plain and with a fresh cache), apply variations"""
    chunk, seed = arg
    bu = bob_utils()
    rng = random.Random(seed)
    work = common.scratch("vf-c11b-")
    res = []
    try:
        for (tid, ct, variations) in chunk:
            root = os.path.join(work, "t%d" % tid).encode()
            cache = os.path.join(work, "c%d.bin" % tid)
            os.mkdir(root)
            build(root, ct, itertools.count(1))
            if project(root) != ct:
                raise Harness("could not build %r" % (ct,))
            cur = ct
            for v in ["base"] + list(variations):
                if v != "base":
                    cur = vary(root, cur, v, rng)
                    if cur is None:
                        cur = ct
                        continue
                    if project(root) != cur:
                        raise Harness("variation %s broke the tree %r" % (v, cur))
                h = bu.hashDirectory(root)
                hc = bu.hashDirectory(root, cache)
                res.append((tid, v, h, hc, canon_dir(cur), tree_key(cur)))
            remove(root)
            if os.path.exists(cache):
                os.unlink(cache)
    finally:
        shutil.rmtree(work, ignore_errors=True)
    return res


def first_difference(k1, k2):
    """aspect in which two abstract trees differ (for the signature)"""
    d1, d2 = {e[0]: e for e in k1}, {e[0]: e for e in k2}
    if set(d1) != set(d2):
        return "names"
    for n in sorted(d1):
        a, b = d1[n], d2[n]
        if a == b:
            continue
        if a[1] != b[1]:
            return "type"
        if a[1] == "dir":
            return "dir-perm" if a[2] != b[2] else first_difference(a[3], b[3])
        if a[1] == "file":
            return "file-perm" if a[2] != b[2] else "content"
        return "target"
    return "none"


def name_extras():
    """trees over names whose order depends on the '/' suffix rule, non-ASCII and odd bytes"""
    names = [b"a", b"a-", b"a.", b"a0", "aä".encode(), b"A", b"a\n", b"a\\", b"a "]
    f1, f2 = ("file", b"1", 0o644), ("file", b"2", 0o644)
    out = []
    for n1, n2 in itertools.permutations(names, 2):
        out.append({n1: ("dir", 0o755, {b"x": f1}), n2: f2})
        out.append({n1: ("dir", 0o755, {b"x": f1}), n2: ("dir", 0o755, {b"x": f2})})
    for n1, n2 in itertools.combinations(names, 2):
        out.append({n1: f1, n2: f2})
        out.append({n1: f2, n2: f1})
    # concatenation ambiguities of the blob
    out.append({b"ab": f1})
    out.append({b"a": f1, b"b": f1})
    out.append({b"a": ("dir", 0o755, {}), b"b": f1})
    out.append({b"a": ("dir", 0o755, {b"b": f1})})
    out.append({b"a": ("link", b"b")})
    out.append({b"a": ("file", b"b", 0o777)})
    return out


def ignore_probes():
    """what does the code skip?  (property: exactly SCM metadata *directories*)"""
    f = ("file", b"data", 0o644)
    base = {b"a": ("dir", 0o755, {b"x": f}), b"a0": f}
    junk = {b"j": ("file", b"junk", 0o600)}
    probes = []
    for name in (b".git", b".svn", b".portage-cache", b"BaseDirList.txt", b".hg", b"CVS"):
        for kind, node in (("dir", ("dir", 0o755, junk)), ("file", ("file", b"gitdir: ../x\n", 0o644)),
                           ("link", ("link", b"a"))):
            for level in ("top", "nested"):
                t = dict(base)
                if level == "top":
                    t[name] = node
                else:
                    t[b"a"] = ("dir", 0o755, {b"x": f, name: node})
                probes.append(("%s:%s:%s" % (name.decode(), kind, level), t))
    return base, probes


def exactness(pool, rep, model_trees, quick, seed):
    rng = random.Random(seed)
    counts = {}

    def violation(sig, detail):
        counts[sig] = counts.get(sig, 0) + 1
        if counts[sig] == 1:            # one written-out example per signature
            rep.violation(sig, detail)

    trees = []                      # (ct, variations)
    var_kinds = ["times", "scm-top", "scm-nested"] + (["owner"] if os.geteuid() == 0 else [])
    tables = REAL[:2] if quick else REAL
    for ti, R in enumerate(tables):
        for j, mt in enumerate(model_trees):
            if (quick and ti == 1 and j % 3) or (ti == 2 and j % 10):
                continue            # "big" contents: a tenth of the universe is enough
            ct = concretise(mt, R)
            vs = rng.sample(var_kinds, 2) if rng.random() < (0.08 if quick else 0.15) else []
            trees.append((ct, vs))
    for ct in name_extras():
        trees.append((ct, ["times"]))
    base, probes = ignore_probes()
    nprobe0 = len(trees)
    trees.append((base, []))
    for _, t in probes:
        trees.append((t, []))
    tasks = [(i, ct, vs) for i, (ct, vs) in enumerate(trees)]
    chunks = [(tasks[k:k + 40], seed * 7919 + k) for k in range(0, len(tasks), 40)]
    by_key, by_hash = {}, {}
    results = {}
    for res in pool.imap_unordered(bucket_task, chunks):
        for (tid, v, h, hc, canon, key) in res:
            rep.evaluations += 2
            results[(tid, v)] = (h, key, canon)
            if tid >= nprobe0:
                continue            # probes are judged below, with their own signatures
            if hc != h:
                violation("cached-ne-plain:fresh-cache", {"tree": repr(trees[tid][0])[:1500], "variation": v})
            if h != canon:
                violation("plain-ne-canonical:" + ",".join(sorted(kinds_of(trees[tid][0]))) + (":" + v if v != "base" else ""),
                              {"tree": repr(trees[tid][0])[:1500], "variation": v, "real": h.hex(), "canonical": canon.hex()})
            by_key.setdefault(key, {}).setdefault(h, (tid, v))
            by_hash.setdefault(h, {}).setdefault(key, (tid, v))
    # equal trees => equal hashes
    for key, hs in by_key.items():
        if len(hs) > 1:
            vs = sorted({v for (_, v) in hs.values()})
            violation("same-tree-different-hash:" + "+".join(vs),
                          {"tree": repr(key)[:1500], "hashes": {h.hex(): w for h, w in hs.items()}})
    # equal hashes => equal trees
    for h, ks in by_hash.items():
        if len(ks) > 1:
            k = list(ks)
            violation("different-trees-same-hash:" + first_difference(k[0], k[1]),
                          {"hash": h.hex(), "tree1": repr(k[0])[:1500], "tree2": repr(k[1])[:1500]})
    rep.extra["exactness_violation_counts"] = counts
    rep.extra["exactness_trees"] = len(by_key)
    rep.extra["exactness_hashes"] = len(by_hash)
    rep.extra["exactness_builds_with_variation"] = sum(1 for (_, v) in results if v != "base")
    for k in by_key:
        rep.nontriv(("tree", hashlib.sha1(repr(k).encode()).hexdigest()[:12]))
    # ignore lists
    hbase = results[(nprobe0, "base")][0]
    ignored = []
    for j, (label, t) in enumerate(probes):
        h, key, canon = results[(nprobe0 + 1 + j, "base")]
        name, kind, level = label.split(":")
        if h == hbase:
            ignored.append(label)
        if h != canon:
            if h == hbase:
                violation("ignored-entry:%s:%s" % (name, kind), {
                    "what": "hashDirectory() is blind to a %s named %s (%s level): the tree with and without it hash equal"
                            % (kind, name, level), "tree": repr(t), "hash": h.hex()})
            elif canon == hbase:
                violation("scm-dir-not-ignored:%s:%s" % (name, level), {"tree": repr(t), "hash": h.hex()})
            else:
                violation("plain-ne-canonical:probe:" + label, {"tree": repr(t), "real": h.hex(), "canonical": canon.hex()})
    rep.extra["entries_ignored_by_code"] = ignored
    return len(trees)


# ----------------------------------------------------------------------------

NW = max(1, int(os.environ.get("VF_WORKERS", "16") or 16))     # process / TLC worker budget of this run


class Budget:
    """at most NW TLC worker threads in flight over all concurrently running JVMs"""

    def __init__(self, n):
        self.free, self.cv = n, threading.Condition()

    def take(self, n):
        with self.cv:
            while self.free < n:
                self.cv.wait()
            self.free -= n

    def give(self, n):
        with self.cv:
            self.free += n
            self.cv.notify_all()


BUDGET = Budget(NW)


class Job(threading.Thread):
    """one or more TLC runs, one after the other, in a background thread"""

    def __init__(self, *runs):
        super().__init__(daemon=True)
        self.runs = runs
        self.results = []
        self.exc = None
        self.start()

    def run(self):
        try:
            for args, kw in self.runs:
                kw = dict(kw, workers=max(1, min(kw.get("workers", NW), NW)))
                kw.setdefault("timeout", 20000)
                BUDGET.take(kw["workers"])
                try:
                    self.results.append(tlc.run(*args, **kw))
                finally:
                    BUDGET.give(kw["workers"])
        except BaseException as e:      # re-raised in the main thread
            self.exc = e

    def get(self):
        self.join()
        if self.exc is not None:
            raise self.exc
        return self.results


def T(*args, **kw):
    return (args, kw)


def replay_file(path):
    """bin/check C11 --replay evidence/replay/C11-n.json: re-run the one recorded case and print what happens"""
    import ast
    with open(path) as f:
        d = json.load(f)["detail"]
    bad = 0
    if "hist" in d:
        R = [r for r in REAL if r["name"] == d["instantiation"]][0]
        work = common.scratch("vf-c11r-")
        r = Replay(d["hist"], R, work).run()
        for sig, det in r.violations:
            print("replayed: %s %s" % (sig, {k: v for k, v in det.items() if k != "hist"}))
        bad = len(r.violations)
    else:
        bu = bob_utils()
        for k in ("tree", "tree1", "tree2"):
            if k not in d:
                continue
            t = ast.literal_eval(d[k])
            if isinstance(t, tuple):        # abstract key -> tree
                def un(key):
                    return {e[0]: (("dir", e[2], un(e[3])) if e[1] == "dir" else ("file", e[3], e[2]) if e[1] == "file"
                                   else ("link", e[2])) for e in key}
                t = un(t)
            root = os.path.join(common.scratch("vf-c11r-"), "t").encode()
            os.mkdir(root)
            build(root, t, itertools.count(1))
            h, c = bu.hashDirectory(root), canon_dir(t)
            print("replayed: %s real=%s canonical=%s %s" % (k, h.hex(), c.hex(), "EQUAL" if h == c else "DIFFERENT"))
            bad += h != c
    print("replay: %d deviation(s) reproduced" % bad)
    return 1 if bad else 0


def main():
    a = common.args(PROP)
    rep = evidence.Report(PROP, a.tier, a.seed)
    rep.rule = ("behaviours = TLC-generated sequences of tree modifications with cached hashes (all 2-step sequences "
                "from 6 base trees + simulated 8-step walks), replayed on real directories; evaluations = real "
                "hashDirectory() executions; non-trivial = distinct (modification burst, cache rewritten/kept, index "
                "length) outcomes + distinct abstract trees bucketed")
    rep.assumptions = ["every modification changes (mtime | inode) of the file: the harness sets mtime from a virtual clock "
                       "in 1 ns steps or replaces the inode; the tree is not modified while it is being hashed",
                       "SHA-1 collisions do not occur among the generated trees",
                       "regular files, symlinks and directories only (no devices, fifos, sockets, hard links)",
                       "SCM metadata directories = .git and .svn on every level"]
    quick = a.tier == "quick"
    common.use_repo()
    bob_utils()                                   # import before fork
    os.umask(0o022)
    if a.replay:
        return replay_file(a.replay)
    pool = mp.get_context("fork").Pool(NW)        # fork before any thread exists
    try:
        return run(a, rep, quick, pool)
    finally:
        pool.terminate()
        pool.join()


def run(a, rep, quick, pool):
    # ---- start all TLC runs (generation first: the replays wait for it)
    gen2 = Job(T("DirHash", "DirHash_gen2.cfg", workers=1))
    gens = Job(T("DirHash", "DirHash_gen.cfg", workers=1, simulate="num=%d" % (300 if quick else 6000), depth=500,
                 seed=a.seed + 1))
    gtrees = Job(T("DirHash", "DirHash_trees_quick.cfg" if quick else "DirHash_trees.cfg", workers=1))
    chains = [(["DirHash_cov.cfg", "DirHash_merge.cfg"] + ([] if quick else ["DirHash_burst.cfg"]), None)]
    if quick:
        chains.append((["DirHash.cfg"], 8))
    else:
        chains.append((["DirHash_thorough3.cfg"], 6))
        chains.append((["DirHash_thorough.cfg"], 8))
    exh = [(cfgs, Job(*[T("DirHash", c, coverage=(c == "DirHash_cov.cfg"), workers=w or (2 if c == "DirHash_cov.cfg" else 4))
                        for c in cfgs])) for cfgs, w in chains]
    reach = Job(*[T("DirHash", "DirHash_reach_%s.cfg" % n, workers=1) for n in REACH])

    # ---- (B) replay
    hists = []
    seen = set()
    for job, name in ((gen2, "enumerated"), (gens, "simulated")):
        r = job.get()[0]
        n0 = len(hists)
        for h in r.printed:
            key = json.dumps(h, sort_keys=True)
            if key not in seen:
                seen.add(key)
                hists.append(h)
        rep.extra["behaviours_" + name] = len(hists) - n0
        if name == "enumerated":
            rep.add_tlc(r, "DirHash_gen2.cfg (enumeration)")
    if len(hists) < 100:
        raise tlc.TlcError("behaviour generation produced only %d behaviours" % len(hists))
    tasks = [(i, h, (i + a.seed) % len(REAL)) for i, h in enumerate(hists)]
    sigs = {}
    drift_n = 0
    ops_seen = set()
    for r in pool.imap_unordered(replay_task, tasks, chunksize=16):
        rep.traces += 1
        rep.evaluations += r["evals"]
        for nt in r["nontrivial"]:
            rep.nontriv(nt)
        for d in r["drift"]:
            drift_n += 1
            if len(rep.drift) < 50:
                rep.model_drift(d)
        for sig, detail in r["violations"]:
            sigs[sig] = sigs.get(sig, 0) + 1
            if sigs[sig] == 1:
                rep.violation(sig, detail)
        if r["i"] in (0, len(hists) - 1):
            rep.sample({"behaviour": [{k: v for k, v in x.items() if k != "tree"} for x in hists[r["i"]]],
                        "instantiation": REAL[(r["i"] + a.seed) % len(REAL)]["name"]})
    for h in hists:
        ops_seen.update(x["a"] for x in h)
    missing = [x for x in ACTIONS[:12] if x not in ops_seen]
    if missing:
        raise tlc.TlcError("vacuity: operations never replayed: %s" % missing)
    rep.extra["replay_violation_counts"] = sigs
    rep.extra["replay_index_drift"] = drift_n

    # ---- (C) content exactness over the tree universe
    rt = gtrees.get()[0]
    if len(rt.printed) < 1000:
        raise tlc.TlcError("tree enumeration produced only %d trees" % len(rt.printed))
    rep.add_tlc(rt, "tree universe")
    rep.extra["exactness_builds"] = exactness(pool, rep, rt.printed, quick, a.seed)

    # ---- (A) exhaustive design checks
    results = [(c, r) for cfgs, job in exh for c, r in zip(cfgs, job.get())]
    for name, res in results:
        rep.add_tlc(res, name + " exhaustive")
        if res.violated:
            rep.violation("model:" + res.violated, {"config": name, "cex": res.cex})
    tlc.require_coverage(results[0][1], ACTIONS, results[0][0])
    for n, res in zip(REACH, reach.get()):
        if res.violated != n:
            raise tlc.TlcError("vacuity: %s not reachable" % n)
    rep.extra["bounds"] = {
        "paths": list(TOP + SUB), "contents": 3, "file_modes": 2, "link_targets": 2, "dir_modes": 2, "base_trees": 6,
        "exhaustive": "DirHash.cfg: <=3 modifications x 6 base trees (new files: 2 contents x 1 mode), hash after each" if quick else
                      "DirHash_thorough3.cfg: <=3 modifications, full alphabets, 6 base trees; DirHash_thorough.cfg: <=4 "
                      "modifications, base trees 3 and 5; DirHash_burst.cfg: <=2 modifications between two hashes",
        "merge": "all (old index, tree) pairs over 5 names x {absent, v1, v2}",
        "instantiations": [r["name"] for r in REAL], "workers": NW}
    if rep.drift:
        rep.level = "exploration"
    return rep.finish()


if __name__ == "__main__":
    evidence.main_wrapper(main)
