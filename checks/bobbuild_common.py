"""Shared replay driver for the BobBuild family (C01, C05, ...).

A behaviour of specs/BobBuild.tla (list of Edit/Begin/Kill/Fail/End records) is replayed on a
real generated project with real `bob dev` / `bob build` invocations observed by vf.boblaunch.
Oracle (P layer, independent of the mechanism model): after every successful invocation every
dist tree equals the tree produced by a real from-scratch build of the same project state in an
empty workspace; an unchanged repeated invocation executes no build/package script; the
invocation after aborts completes with exit status 0.
"""
import hashlib
import json
import os
import shutil

from vf import common, bobrun, projgen

# model micro-op (pc at which the model kills = the op NOT yet executed) -> predicate on real events
KIND_DIR = {"prep": "dist", "co": "src", "bu": "build", "pk": "dist"}


def _match(e, name, path=None, val=None, script=None):
    if e["e"] != name:
        return False
    if path is not None and e.get("path") != path:
        return False
    if val == "ts" and e.get("val") != "ts":
        return False
    if val == "none" and e.get("val") != "none":
        return False
    if val == "h" and not (isinstance(e.get("val"), str) and e["val"].startswith("h:")):
        return False
    if val == "notnone" and e.get("val") == "none":
        return False
    if script is not None and e.get("script") != script:
        return False
    return True


def find_kill_index(events, paths, k, p, at):
    """Index of the last event that precedes micro-op `at` of step (k,p) in a recorded complete run,
    or None if that micro-op did not occur in the real run."""
    d = paths.get(p, {}).get(KIND_DIR[k])
    if d is None:
        return None
    script = {"co": "checkout", "bu": "build", "pk": "package"}.get(k)

    def first(pred, lo=0):
        for i in range(lo, len(events)):
            if pred(events[i]):
                return i
        return None
    # start of the step = first event mentioning its directory (for pk: after the prep events)
    if k == "prep":
        lo = first(lambda e: e.get("path") == d)
        if lo is None:
            return None
        table = {
            "start": lambda e: e.get("path") == d,
            "inval": lambda e: _match(e, "resetWorkspaceState", d, "none"),
            "prune": lambda e: _match(e, "emptyDirectory", d) or _match(e, "removePath", d),
            "reset": lambda e: _match(e, "resetWorkspaceState", d, "notnone"),
            "done": None,
        }
        if at == "done":
            j = first(lambda e: _match(e, "resetWorkspaceState", d, "notnone"), lo)
            return j  # kill right after the reset
        pred = table.get(at)
        j = first(pred, lo) if pred else None
        if j is None:
            return None
        # the prep events of pk's directory come first; make sure we are before the package run
        run = first(lambda e: _match(e, "runBegin", d))
        if run is not None and j > run:
            return None
        return j - 1
    rb = first(lambda e: _match(e, "runBegin", d, script=script))
    if k == "pk":
        # skip the prep part: the package step proper starts at delInputHashes / the skip message
        lo = first(lambda e: _match(e, "delInputHashes", d))
    else:
        lo = first(lambda e: e.get("path") == d)
    if lo is None:
        return None
    table = {
        "start": lambda e: e.get("path") == d,
        "reason": lambda e: e.get("path") == d and e["e"] != "resetWorkspaceState",
        "store": lambda e: _match(e, "setDirectoryState", d),
        "forge": lambda e: _match(e, "setResultHash", d, "ts") or _match(e, "runBegin", d),
        "inval": lambda e: _match(e, "resetWorkspaceState", d, "none"),
        "prune": lambda e: _match(e, "emptyDirectory", d),
        "reset": lambda e: _match(e, "resetWorkspaceState", d, "notnone"),
        "check": lambda e: _match(e, "delInputHashes", d),
        "inv2": lambda e: _match(e, "setResultHash", d, "ts"),
        "run": lambda e: _match(e, "runBegin", d),
        "c3first": lambda e: _match(e, "runBegin", d),
    }
    if at in table:
        j = first(table[at], lo)
        return None if j is None else j - 1
    re_ = first(lambda e: _match(e, "runEnd", d), lo)
    if re_ is None:
        return None
    after = {
        "commit": lambda e: e.get("path") == d and e["e"] in ("setDirectoryState", "setInputHashes", "setVariantId"),
        "setres": lambda e: _match(e, "setResultHash", d, "h"),
        "c1": lambda e: _match(e, "setResultHash", d, "h"),
        "c2": lambda e: _match(e, "setVariantId", d),
        "c3": lambda e: _match(e, "setInputHashes", d),
    }
    if at in after:
        j = first(after[at], re_)
        return None if j is None else j - 1
    return None


class Oracle:
    """Real from-scratch builds, memoised on disk below `cache` (shared by pool workers)."""

    def __init__(self, cache):
        self.cache = cache
        os.makedirs(cache, exist_ok=True)
        self.mem = {}
        self.builds = 0

    def clean(self, proj, target="app", define=False, prune=True):
        key = hashlib.sha1((projgen.proj_key(proj) + str(define) + str(prune)).encode()).hexdigest()
        if key in self.mem:
            return self.mem[key]
        f = os.path.join(self.cache, key + ".json")
        if os.path.exists(f):
            try:
                with open(f) as fh:
                    self.mem[key] = json.load(fh)
                return self.mem[key]
            except ValueError:
                pass
        d = os.path.join(self.cache, "build-%s-%d" % (key, os.getpid()))
        shutil.rmtree(d, ignore_errors=True)
        os.makedirs(d)
        try:
            files, srcs = projgen.render_bobbuild(proj, define, prune)
            bobrun.write_files(d, files)
            for sub, fs in srcs.items():
                bobrun.sync_tree(d, sub, fs)
            r = bobrun.run_bob(d, ["dev", target] + (["-DV=%s" % proj["V"]] if define else []), record=False)
            self.builds += 1
            if r.rc != 0:
                raise RuntimeError("clean build of oracle failed (rc=%s):\n%s" % (r.rc, r.out[-2000:]))
            paths = bobrun.dev_paths(d)
            if paths is None or (proj["dep"] and "app/lib" not in paths):
                paths = bobrun.query_paths(d, target, False, ["-DV=%s" % proj["V"]] if define else [])
            elif not proj["dep"]:
                paths.pop("app/lib", None)
            res = {}
            for name, ps in paths.items():
                pkg = name.split("/")[-1]
                if "dist" not in ps:
                    raise RuntimeError("oracle: package %s has no dist workspace after a clean build" % name)
                t = bobrun.walk_tree(os.path.join(d, ps["dist"]))
                res[pkg] = {k: list(v) for k, v in t.items()} if t is not None else None
        finally:
            shutil.rmtree(d, ignore_errors=True)
        tmp = f + ".%d.tmp" % os.getpid()
        with open(tmp, "w") as fh:
            json.dump(res, fh)
        os.replace(tmp, f)
        self.mem[key] = res
        return res


class BehaviourReplay:
    def __init__(self, hist, workdir, oracle, release=False, jobs=1, enumerate_kills=False, seed=0, define=False, prune=True, kill_override=None):
        self.hist = hist
        self.ws = os.path.join(workdir, "ws")
        self.ctl = os.path.join(workdir, "ctl")
        self.tmp = os.path.join(workdir, "tmp")
        os.makedirs(self.ws)
        os.makedirs(self.ctl)
        self.oracle = oracle
        self.release = release
        self.jobs = jobs
        self.enumerate_kills = enumerate_kills
        self.define = define
        self.prune = prune
        self.kill_override = kill_override   # event index to use for the first non-script Kill instead of the model's point
        self.first_kill_events = None        # number of events of the invocation interrupted by the first Kill (from the dry run)
        self.proj = None
        self.flag = "plain"                  # command line variant of the current invocation (BobBuild.tla Flags)
        self.violations = []
        self.drift = []
        self.invocations = 0
        self.nontrivial = set()
        self.log = []
        self.decisions = []

    def cmd(self, extra=()):
        c = ["build" if self.release else "dev", "app"]
        if self.jobs > 1:
            c += ["-j", str(self.jobs)]
        if self.define and self.proj is not None:
            c += ["-DV=%s" % self.proj["V"]]
        if self.flag == "bo":
            c += ["-b"]
        elif self.flag == "force":
            c += ["-f"]
        return c + list(extra)

    def paths(self, ws=None):
        """current workspace paths: cheap directory listing in develop mode when unambiguous, else `bob query-path`"""
        ws = ws or self.ws
        if not self.release:
            p = bobrun.dev_paths(ws)
            if p is not None:
                if self.proj is not None and not self.proj["dep"]:
                    p.pop("app/lib", None)    # lib is not part of the project state; its old directories are not visited
                return p
        return bobrun.query_paths(ws, "app", self.release, self.defines())

    def defines(self):
        return ["-DV=%s" % self.proj["V"]] if self.define and self.proj is not None else []

    def apply(self, proj):
        self.proj = proj
        files, srcs = projgen.render_bobbuild(proj, self.define, self.prune)
        bobrun.write_files(self.ws, files)
        for sub, fs in srcs.items():
            bobrun.sync_tree(self.ws, sub, fs)

    def viol(self, sig, **detail):
        detail["hist"] = self.hist
        detail["log"] = self.log[-30:]
        detail["mode"] = "release" if self.release else "dev"
        detail["jobs"] = self.jobs
        detail["define"] = self.define
        detail["prune"] = self.prune
        self.violations.append((sig, detail))

    def invoke(self, kill_at=None, ws=None):
        self.invocations += 1
        r = bobrun.run_bob(ws or self.ws, self.cmd(), kill_at=kill_at, ctl=self.ctl)
        return r

    def check_result(self, r, proj, quiet, what):
        """P oracle after a successful invocation."""
        if r.rc != 0:
            self.viol("invocation-failed:" + what, rc=r.rc, out=r.out[-3000:])
            return False
        paths = self.paths()
        want = self.oracle.clean(proj, define=self.define, prune=self.prune)
        ok = True
        for name, ps in paths.items():
            pkg = name.split("/")[-1]
            if "dist" not in ps:
                self.viol("package-result-missing:" + what, package=pkg, proj=proj)
                ok = False
                continue
            got = bobrun.walk_tree(os.path.join(self.ws, ps["dist"]))
            got = {k: list(v) for k, v in got.items()} if got is not None else None
            if got != want.get(pkg):
                diff = sorted(set(got or {}) ^ set(want.get(pkg) or {})) or \
                    [k for k in (got or {}) if (got or {}).get(k) != (want.get(pkg) or {}).get(k)]
                self.viol("dist-differs-from-clean-build:" + what, package=pkg, differing_paths=diff[:10],
                          got=bobrun.tree_text(os.path.join(self.ws, ps["dist"]))[:1500], proj=proj)
                ok = False
        if quiet:
            ran = [x for x in r.runs() if x[1] in ("build", "package")]
            if ran:
                self.viol("unchanged-rebuild-executes-steps", ran=ran, proj=proj)
                ok = False
        return ok

    def run(self):
        hist = self.hist
        i = 0
        aborted_before = 0
        shape = []
        while i < len(hist):
            a = hist[i]
            i += 1
            if a["a"] == "Edit":
                shape.append("E:" + a["knob"])
                continue
            if a["a"] != "Begin":
                continue
            proj = a["proj"]
            self.apply(proj)
            self.flag = a.get("flag", "plain")
            if self.flag != "plain":
                shape.append("<%s>" % self.flag)
                self.nontrivial.add("flag:" + self.flag)
            nxt = hist[i] if i < len(hist) else {"a": "End"}
            if nxt["a"] == "Fail":
                f = os.path.join(self.ctl, "%s.%s.fail" % (nxt["p"], nxt["k"]))
                open(f, "w").close()
                r = self.invoke()
                os.unlink(f)
                self.log.append(("fail", nxt["k"], nxt["p"], r.rc, r.runs()))
                if r.rc == 0:
                    self.drift.append("model fails %s/%s but the real step was not executed" % (nxt["k"], nxt["p"]))
                    self.check_result(r, proj, False, "after-model-fail-not-run")
                else:
                    aborted_before += 1
                    self.nontrivial.add("fail:%s" % nxt["k"])
                shape.append("F:%s" % nxt["k"])
                i += 1
            elif nxt["a"] == "Kill":
                shape.append("K:%s@%s" % (nxt["k"], nxt["at"]))
                if nxt["at"] == "script":
                    f = os.path.join(self.ctl, "%s.%s.kill" % (nxt["p"], nxt["k"]))
                    open(f, "w").close()
                    r = self.invoke()
                    os.unlink(f)
                    self.log.append(("kill-in-script", nxt["k"], nxt["p"], r.rc, r.runs()))
                    if r.rc == 0:
                        self.drift.append("model kills in script %s/%s but the real step was not executed" % (nxt["k"], nxt["p"]))
                        self.check_result(r, proj, False, "after-model-kill-not-run")
                    else:
                        aborted_before += 1
                        self.nontrivial.add("kill:script:%s" % nxt["k"])
                else:
                    # dry run in a copy to number the events, then the real run with the kill plan
                    shutil.rmtree(self.tmp, ignore_errors=True)
                    shutil.copytree(self.ws, self.tmp, symlinks=True)
                    dry = self.invoke(ws=self.tmp)
                    paths = self.paths(self.tmp) if dry.rc == 0 else {}
                    paths = {n.split("/")[-1]: v for n, v in paths.items()}
                    shutil.rmtree(self.tmp, ignore_errors=True)
                    if dry.rc != 0:
                        self.viol("invocation-failed:dry-run-before-kill", rc=dry.rc, out=dry.out[-3000:])
                        return self
                    idx = None if self.release else find_kill_index(dry.events, paths, nxt["k"], nxt["p"], nxt["at"])
                    if self.first_kill_events is None:
                        self.first_kill_events = len(dry.events)
                        if self.kill_override is not None:
                            idx = min(self.kill_override, len(dry.events) - 1)
                    if idx is None:
                        if not self.release:
                            self.drift.append("model kill point %s/%s@%s has no counterpart in the real run" % (nxt["k"], nxt["p"], nxt["at"]))
                        # fall back: same relative position in the event stream
                        idx = max(0, len(dry.events) // 2)
                    r = self.invoke(kill_at=idx)
                    self.log.append(("kill", nxt["k"], nxt["p"], nxt["at"], idx, r.rc, [e["e"] for e in r.events[-4:]]))
                    if not r.killed:
                        self.drift.append("kill plan at event %d did not fire" % idx)
                        self.check_result(r, proj, False, "kill-not-fired")
                    else:
                        aborted_before += 1
                        self.nontrivial.add("kill:%s@%s" % (nxt["k"], nxt["at"]))
                bobrun.remove_stale_lock(self.ws)
                i += 1
            else:
                r = self.invoke()
                self.log.append(("ok", r.rc, r.runs(), [m for m in r.msgs() if "PRUNE" in m[1] or "skipped" in m[2]]))
                what = "after-abort" if aborted_before else "incremental"
                if self.flag == "bo":
                    # --build-only promises no up-to-date result (checkouts are not refreshed): nothing is judged
                    # here; the next plain invocation must converge to the clean build
                    if r.rc != 0:
                        self.drift.append("--build-only invocation failed (rc %s)" % r.rc)
                    if nxt["a"] == "End":
                        i += 1
                    shape.append("OK")
                    continue
                if self.flag == "force":
                    what += ":forced"
                ok = self.check_result(r, proj, bool(a.get("quiet")), what)
                if a.get("quiet"):
                    self.nontrivial.add("quiet-rebuild")
                if aborted_before:
                    self.nontrivial.add("recovery-after-%d-aborts" % aborted_before)
                aborted_before = 0
                if not ok:
                    return self
                if nxt["a"] == "End":
                    i += 1
                shape.append("OK")
        self.shape = " ".join(shape)
        return self


def shape_of(hist):
    s = []
    for a in hist:
        if a["a"] == "Edit":
            s.append("E:%s%s%s" % (a["knob"], ":" + a["p"] if "p" in a else "", "=%s" % a["v"] if "v" in a else ""))
        elif a["a"] == "Kill":
            s.append("K:%s:%s@%s" % (a["k"], a["p"], a["at"]))
        elif a["a"] == "Fail":
            s.append("F:%s:%s" % (a["k"], a["p"]))
        elif a["a"] == "End":
            s.append("OK")
    return " ".join(s)


def lib_never_deletes(hist):
    """True if no invocation of the behaviour sees lib's import source lose a file (then the import SCM
    may be used without `prune`: the documented caveat of non-pruning imports does not apply)"""
    last = None
    for a in hist:
        if a["a"] == "Begin":
            v = a["proj"]["src"]["lib"]
            if last is not None and projgen.deletes_files(last, v):
                return False
            last = v
    return True
