"""C10  Workspace state commits atomically and is single-writer.

(A) TLC checks specs/StateCommit.tla exhaustively (crash between all micro-steps,
    torn unsynced files, stale lock handling) + reachability (vacuity) configs.
(A') unbounded-depth argument: Apalache proves that IndInv of specs/StateCommitApa.tla (a typed
    copy of the protocol, kept equal to StateCommit.tla by a TLC state-count cross-check) is
    inductive for ARBITRARY MaxSnap/MaxInv/MaxCrash/MaxAsync and implies every P invariant;
    vacuity: IndInit is satisfiable and a deliberately weakened action breaks the step.
(B) TLC -simulate generates behaviours (API-level action sequences with crash points);
    each is replayed into the real bob.state._BobState under the fs interposer. At every
    Crash action the driver additionally builds the crash image for EVERY prefix of the
    real fs-op trace of the interrupted invocation and every garbling of files that were
    written but not fsync'ed, starts a fresh instance on it and reads everything back
    through the public getters.
(C) the fs-op trace of every replayed behaviour is mapped to spec events and validated
    against the spec by TraceStateCommit.tla (code -> spec direction, batched).

Verdict (P layer): a fresh instance must load without error exactly one snapshot that was
saved, not older than the end of the last completed invocation; a second instance must be
refused while the lock exists.  Disagreement with the mechanism model is model_drift.
"""
import copy
import hashlib
import json
import multiprocessing as mp
import os
import random
import re
import subprocess
import sys
import time
from concurrent.futures import ThreadPoolExecutor

from vf import common, tlc, evidence, fsint

PROP = "C10"
PATHS = ["dev/src/a/1/workspace", "dev/build/a/1/workspace", "dev/dist/a/1/workspace", "work/b/dist/1/workspace"]
LOCK, PICKLE, NEW, DIRTY = ".bob-state.lock", ".bob-state.pickle", ".bob-state.pickle.new", ".bob-state.pickle.new.dirty"


def project(S):
    """Everything readable through the public getters, as a comparable value."""
    r = {}
    r["byName"] = sorted(map(repr, S.getAllNameDirectores()))
    r["byNameExisting"] = [S.getExistingByNameDirectory(b"v%d" % i) for i in range(1, 8)]
    r["results"] = [S.getResultHash(p) for p in PATHS]
    r["inputs"] = [S.getInputHashes(p) for p in PATHS]
    r["dirs"] = {p: S.getDirectoryState(p, False) for p in sorted(S.getDirectories())}
    r["vids"] = [S.getVariantId(p) for p in PATHS]
    r["attic"] = {p: S.getAtticDirectoryState(p) for p in sorted(S.getAtticDirectories())}
    r["layers"] = {p: S.getLayerState(p) for p in sorted(S.getLayers())}
    r["jenkins"] = {n: (S.getJenkinsConfig(n).dump(),
                        {j: S.getJenkinsJobConfig(n, j) for j in sorted(S.getJenkinsAllJobs(n))})
                    for n in sorted(S.getAllJenkins())}
    r["build"] = S.getBuildState()
    r["storage"] = [S.getStoragePath(p) for p in PATHS]
    return r


MUT_KINDS = ["result", "input", "dirstate", "dirstate_src", "vid", "byname", "attic", "layer",
             "jenkins", "jenkinsjob", "jenkinsjobcfg", "buildstate", "storage", "reset", "delinput", "delattic",
             "dellayer", "jenkinscfg", "deljenkins", "deljob", "deldir"]


def mutate(S, rng, n):
    """Exactly one state-saving public API call. Setters embed the fresh counter n; deleters are
    chosen only when there is something to delete (so every call changes and saves the state)."""
    from bob.state import JenkinsConfig
    tag = b"v%d" % n
    p = rng.choice(PATHS)
    for _ in range(20):
        k = rng.choice(MUT_KINDS)
        jl = sorted(S.getAllJenkins())
        if k == "result":
            S.setResultHash(p, tag)
        elif k == "input":
            S.setInputHashes(p, [tag, b"x"])
        elif k == "dirstate":
            S.setDirectoryState(p, tag)
        elif k == "dirstate_src":
            S.setDirectoryState(p, {None: (tag, None), "sub": (tag, {"scm": "git", "n": n})})
        elif k == "vid":
            S.setVariantId(p, tag)
        elif k == "byname":
            S.getByNameDirectory("work/x%d" % (n % 2), tag, bool(n % 2))
        elif k == "attic":
            S.setAtticDirectoryState("dev/src/a/attic_%d" % n, {"scm": "git", "n": n})
        elif k == "layer":
            S.setLayerState("layers/l%d" % (n % 2), {"digest": tag})
        elif k == "jenkins":
            S.addJenkins("j%d" % n, JenkinsConfig("http://h/%d" % n, "uuid%d" % n))
        elif k == "jenkinsjob" and jl:
            S.addJenkinsJob(jl[0], "job%d" % n, {"hash": tag})
        elif k == "jenkinsjobcfg" and jl and S.getJenkinsAllJobs(jl[0]):
            S.setJenkinsJobConfig(jl[0], sorted(S.getJenkinsAllJobs(jl[0]))[0], {"hash": tag})
        elif k == "jenkinscfg" and jl:
            c = S.getJenkinsConfig(jl[0])
            c.prefix = "p%d" % n
            S.setJenkinsConfig(jl[0], c)
        elif k == "deljenkins" and jl:
            S.delJenkins(jl[-1])
        elif k == "deljob" and jl and S.getJenkinsAllJobs(jl[0]):
            S.delJenkinsJob(jl[0], sorted(S.getJenkinsAllJobs(jl[0]))[0])
        elif k == "buildstate":
            S.setBuildState({"wasRun": {p: (tag, False)}, "predictedBuidId": {}})
        elif k == "storage":
            S.setStoragePath(p, "/shared/%d" % n)
        elif k == "reset" and S.getDirectories():
            d = sorted(S.getDirectories())[0]
            S.resetWorkspaceState(d, tag)
        elif k == "deldir" and S.getDirectories():
            S.delDirectoryState(sorted(S.getDirectories())[0])
        elif k == "delinput" and any(S.getInputHashes(q) is not None for q in PATHS):
            S.delInputHashes([q for q in PATHS if S.getInputHashes(q) is not None][0])
        elif k == "delattic" and S.getAtticDirectories():
            S.delAtticDirectoryState(sorted(S.getAtticDirectories())[0])
        elif k == "dellayer" and S.getLayers():
            S.delLayerState(sorted(S.getLayers())[0])
        else:
            continue
        return k
    S.setResultHash(p, tag)
    return "result"


class Stop(Exception):
    pass


class Replay:
    """Replays one TLC behaviour into the real code (single process, cwd = scratch)."""

    def __init__(self, hist, seed, workdir, exhaustive_prefixes=True):
        self.hist = hist
        self.rng = random.Random(seed)
        self.main = os.path.join(workdir, "main")
        self.img = os.path.join(workdir, "img")
        os.makedirs(self.main)
        self.snaps = {}               # snapshot number -> projection
        self.last_completed = 0
        self.violations = []          # (signature, detail)
        self.drift = []
        self.events = []              # (op index at emission, record) for trace validation
        self.images = 0
        self.loads = 0
        self.load_cache = {}
        self.nontrivial = set()
        self.mut_kinds = set()
        self.exhaustive_prefixes = exhaustive_prefixes

    def viol(self, sig, **detail):
        detail["hist"] = self.hist
        self.violations.append((sig, detail))
        raise Stop()

    def fresh_load(self, image):
        key = hashlib.sha1(repr(sorted(image.items(), key=lambda kv: kv[0])).encode()).hexdigest()
        if key in self.load_cache:
            return self.load_cache[key]
        from bob import state as bstate
        self.ip.enabled = False
        fsint.restore_dir(self.img, image)
        cwd = os.getcwd()
        os.chdir(self.img)
        try:
            if os.path.exists(LOCK):
                os.unlink(LOCK)   # "Delete '.bob-state.lock' if Bob crashed or was killed"
            try:
                S = bstate._BobState()
                try:
                    res = ("ok", project(S))
                finally:
                    S.finalize()
                # the recovery must be stable: a further start (after the recovering instance
                # finished without changing anything) loads the same snapshot again
                S = bstate._BobState()
                try:
                    again = project(S)
                finally:
                    S.finalize()
                if again != res[1]:
                    res = ("error", "second start after recovery loaded a different state")
            except BaseException as e:
                res = ("error", "%s: %s" % (type(e).__name__, e))
        finally:
            os.chdir(cwd)
            self.ip.enabled = True
        self.loads += 1
        self.load_cache[key] = res
        return res

    def which_snapshot(self, proj):
        """numbers of all recorded snapshots equal to proj (a deletion may restore an earlier state)"""
        return {n for n, p in self.snaps.items() if p == proj}

    def check_image(self, image, allowed, what):
        self.images += 1
        st, proj = self.fresh_load(image)
        if st != "ok":
            self.viol("load-error", what=what, error=proj)
        ns = self.which_snapshot(proj)
        if not ns:
            self.viol("not-a-snapshot", what=what, loaded=repr(proj)[:2000])
        if not (ns & allowed):
            self.viol("older-than-completed" if max(ns) < self.last_completed else "unsaved-snapshot",
                      what=what, loaded_snapshot=sorted(ns), allowed=sorted(allowed), last_completed=self.last_completed)
        return ns

    def run(self):
        from bob import state as bstate
        self.ip = ip = fsint.Interposer()
        self.after = []           # per op: (dir snapshot, unsynced relpaths) after the op
        ip.hook = self._hook
        ip.install(bstate, extra={"replacePath": ip.os.replace})
        cwd = os.getcwd()
        os.chdir(self.main)
        devnull = open(os.devnull, "w")
        olderr = sys.stderr
        sys.stderr = devnull
        try:
            self._run(bstate)
        except Stop:
            pass
        finally:
            sys.stderr = olderr
            devnull.close()
            ip.uninstall()
            bstate._BobState.instance = None
            os.chdir(cwd)
        return self

    def _hook(self, phase, op):
        if phase == "after":
            self.after.append((fsint.snapshot_dir(self.main),
                               {os.path.relpath(p, self.main) for p in self.ip.unsynced()}))

    def ev(self, name, **kw):
        self.events.append((None, dict(kw, e=name)))

    def emit_ops(self, lo):
        for j in range(lo, len(self.ip.ops)):
            op = self.ip.ops[j]
            if op.exc is not None:
                continue
            base = [os.path.basename(a) if isinstance(a, str) else a for a in op.args]
            name = None
            if op.name == "os.open" and base[0] == LOCK:
                name = "StartLock"
            elif op.name == "fsync" and base[0] == NEW:
                name = "Fsync"
            elif op.name == "replace" and base == [NEW, PICKLE]:
                name = "RenameNewPickle"
            elif op.name == "replace" and base == [DIRTY, NEW]:
                name = "RenameDirtyNew"
            elif op.name == "close" and base[0] == DIRTY:
                name = "WriteDirty"
            elif op.name == "unlink" and base[0] == NEW:
                name = "Discard"
            elif op.name == "unlink" and base[0] == LOCK:
                name = "Unlock"
            if name:
                self.events.append((j, {"e": name}))

    def _run(self, bstate):
        from bob.errors import BobError
        ip = self.ip
        S = None
        async_depth, dirty = 0, False
        cur = 0
        saved = set()               # P-level: snapshots passed to save so far
        calls = []                  # (op_lo, saved set once this call was entered)
        inv_start, inv_image, inv_saved = 0, fsint.snapshot_dir(self.main), set()

        def find(name, base0, lo):
            for j in range(lo, len(ip.ops)):
                if ip.ops[j].name == name and os.path.basename(str(ip.ops[j].args[0])) == base0:
                    return j
            return None

        for idx, a in enumerate(self.hist):
            act = a["a"]
            lo = len(ip.ops)
            if act == "Start":
                inv_start, inv_image, inv_saved = lo, fsint.snapshot_dir(self.main), set(saved)
                calls = [(lo, set(saved))]
                try:
                    S = bstate._BobState()
                except Exception as e:
                    bstate._BobState.instance = None
                    self.viol("start-failed", error="%s: %s" % (type(e).__name__, e), at=idx)
                self.emit_ops(lo)
                proj = project(S)
                if not self.snaps:
                    self.snaps[0] = copy.deepcopy(proj)
                ns = self.which_snapshot(proj)
                allowed = {s for s in saved | {0} if s >= self.last_completed}
                if not ns:
                    self.viol("not-a-snapshot", what="start #%d" % idx, loaded=repr(proj)[:2000])
                if not (ns & allowed):
                    self.viol("older-than-completed" if max(ns) < self.last_completed else "unsaved-snapshot",
                              what="start #%d" % idx, loaded_snapshot=sorted(ns), allowed=sorted(allowed))
                cur = max(ns & allowed)
                for b in self.hist[idx + 1:]:
                    if b["a"] == "Loaded":
                        if b["snap"] in ns:
                            cur = b["snap"]
                        else:
                            self.drift.append("model expected snapshot %d, code loaded %s" % (b["snap"], sorted(ns)))
                        break
                    if b["a"] != "SecondInstance":
                        break
                self.ev("Loaded", snap=cur)
                async_depth, dirty = 0, False
            elif act == "Loaded":
                continue
            elif act in ("StartRefused", "SecondInstance"):
                if act == "SecondInstance" and S is None:
                    continue
                before = fsint.snapshot_dir(self.main)
                ip.enabled = False
                try:
                    S2 = bstate._BobState()
                except BobError:
                    self.ev(act)
                else:
                    S2.finalize()
                    self.viol("second-instance-not-refused" if act == "SecondInstance" else "stale-lock-not-refused", at=idx)
                finally:
                    ip.enabled = True
                if fsint.snapshot_dir(self.main) != before:
                    self.viol("refused-instance-modified-workspace", at=idx)
                self.nontrivial.add(act)
            elif act == "Mutate":
                cur = a["snap"]
                if async_depth == 0:
                    saved = saved | {cur}
                else:
                    dirty = True
                    self.nontrivial.add("mutate-in-async")
                calls.append((lo, set(saved)))
                self.ev("Mutate", snap=cur)
                self.mut_kinds.add(mutate(S, self.rng, cur))
                self.snaps[cur] = copy.deepcopy(project(S))
                self.emit_ops(lo)
            elif act == "AsyncBegin":
                S.setAsynchronous()
                async_depth += 1
                self.ev("AsyncBegin")
            elif act == "AsyncEnd":
                async_depth -= 1
                if async_depth == 0 and dirty:
                    saved = saved | {cur}
                    dirty = False
                    self.nontrivial.add("async-deferred-save")
                calls.append((lo, set(saved)))
                self.ev("AsyncEnd")
                S.setSynchronous()
                self.emit_ops(lo)
            elif act == "Finalize":
                calls.append((lo, set(saved)))
                self.ev("Finalize")
                S.finalize()
                S = None
                prev_completed = self.last_completed
                self.last_completed = cur
                self.emit_ops(lo)
            elif act == "RemoveLock":
                try:
                    os.unlink(LOCK)
                except FileNotFoundError:
                    self.drift.append("RemoveLock: no lock file")
                self.ev("RemoveLock")
            elif act == "Crash":
                nops = len(ip.ops)
                if a["at"].startswith("f_"):
                    # the interrupted finalize did not complete the invocation
                    self.last_completed = prev_completed

                def saved_at(k):
                    # P: a snapshot counts as saved once the call that saves it has been entered
                    sv = set(inv_saved)
                    for clo, csv in calls:
                        if clo <= k:
                            sv = csv
                    return sv

                def image_at(k):
                    return (inv_image, set()) if k == inv_start else self.after[k - 1]

                if self.exhaustive_prefixes:
                    for k in range(inv_start, nops + 1):
                        image, uns = image_at(k)
                        allowed = {s for s in saved_at(k) | {0} if s >= self.last_completed}
                        self.check_image(image, allowed, "prefix %d/%d intact" % (k - inv_start, nops - inv_start))
                        for rel in sorted(uns):
                            if rel not in image or isinstance(image[rel], tuple):
                                continue
                            for label, data in fsint.garblings(image[rel], self.rng):
                                img2 = dict(image)
                                img2[rel] = data
                                self.check_image(img2, allowed, "prefix %d/%d %s %s" % (k - inv_start, nops - inv_start, rel, label))
                                self.nontrivial.add("torn:%s:%s" % (rel, label.rstrip("0123456789")))
                # continue from the model's crash point
                at = a["at"]
                cs = calls[-1][0] if calls else inv_start
                if at in ("run", "s_load"):
                    k = nops
                elif at in ("wd", "f_commit"):
                    k = cs
                elif at == "rn":
                    k = find("replace", DIRTY, cs)
                elif at == "s_lock":
                    j = find("os.open", LOCK, inv_start)
                    k = None if j is None else j + 1
                elif at in ("s_fsynced", "f_fsynced"):
                    j = find("fsync", NEW, cs if at == "f_fsynced" else inv_start)
                    k = None if j is None else j + 1
                elif at == "f_unlock":
                    k = find("unlink", LOCK, cs)
                else:
                    k = None
                if k is None:
                    self.drift.append("cannot map model crash point %s onto the real op trace" % at)
                    k = nops
                image, uns = image_at(k)
                image = dict(image)
                for flag, rel in (("tornNew", NEW), ("tornDirty", DIRTY)):
                    if a.get(flag):
                        if rel in image and rel in uns:
                            image[rel] = self.rng.choice(fsint.garblings(image[rel], self.rng))[1]
                        else:
                            self.drift.append("model tears %s at %s but the code has it synced/absent" % (rel, at))
                saved = saved_at(k)
                ip.enabled = False
                os.chdir("/")
                fsint.restore_dir(self.main, image)
                os.chdir(self.main)
                ip.enabled = True
                ip._unsynced.clear()
                del ip.ops[k:]
                del self.after[k:]
                # fs events after the crash point did not happen; API-level events all precede the crash
                self.events = [(j, r) for (j, r) in self.events if j is None or j < k]
                if at in ("s_lock", "s_fsynced", "s_load"):
                    for q in range(len(self.events) - 1, -1, -1):
                        if self.events[q][1]["e"] == "Loaded":
                            del self.events[q]
                            break
                self.ev("Crash", at=at, tornNew=bool(a.get("tornNew")), tornDirty=bool(a.get("tornDirty")))
                S = None
                bstate._BobState.instance = None
                async_depth, dirty = 0, False
                self.nontrivial.add("crash@" + at)
                if a.get("tornNew"):
                    self.nontrivial.add("crash-torn-new@" + at)
        if S is not None and async_depth == 0 and not dirty:
            S.finalize()


def replay_task(arg):
    i, hist, seed, exhaustive = arg
    common.use_repo()
    work = common.scratch("vf-c10-")
    try:
        r = Replay(hist, seed * 1000003 + i, work, exhaustive).run()
    finally:
        import shutil
        shutil.rmtree(work, ignore_errors=True)
    return {"i": i, "violations": r.violations, "drift": r.drift, "events": [e for _, e in r.events],
            "images": r.images, "loads": r.loads, "nontrivial": sorted(r.nontrivial), "mut_kinds": sorted(r.mut_kinds)}


def validate_traces(traces, rep, batch=400):
    """(C) code -> spec: TLC validates the event traces in batches."""
    rejected = []
    work = common.scratch("vf-c10t-")
    for b in range(0, len(traces), batch):
        chunk = traces[b:b + batch]
        tf = os.path.join(work, "traces%d.json" % b)
        with open(tf, "w") as f:
            json.dump([t if t else [{"e": "nop"}] for t in chunk], f)
        res = tlc.run("TraceStateCommit", "TraceStateCommit.cfg", workers=1, timeout=900,
                      env={"TRACE_FILE": tf}, deadlock=False)
        if res.violated:
            # an invariant of the P layer failed on a state reached while matching a real trace
            rep.violation("trace-invariant:" + res.violated, {"cex": res.cex[-3:], "batch": b})
        if not res.printed:
            raise tlc.TlcError("trace validation printed no result:\n" + res.out[-2000:])
        reached = res.printed[-1]
        for j, t in enumerate(chunk):
            n = reached[j] if isinstance(reached, list) else reached[str(j + 1)]
            if t and n < len(t):
                rejected.append((b + j, n, t[n], t))
        rep.add_tlc(res, "TraceStateCommit batch %d" % b)
    return rejected


# --------------------------------------------------------------------------------------------
# (A') Apalache: inductive invariant of specs/StateCommitApa.tla (entry points MC_StateCommitApa.tla)

P_INVARIANTS = ["TypeOK", "LoadNeverErrors", "LoadsSavedSnapshot", "NotOlderThanCompleted", "SingleWriter", "PickleDurable"]
APA_MC = "MC_StateCommitApa.tla"
# (name, arguments, expected outcome, state at which the violation must be reported)
APA_JOBS = [
    ("step",          ["--cinit=CInit", "--init=IndInit", "--inv=IndInv", "--length=1"], "NoError", None),
    ("base",          ["--cinit=CInit", "--init=Init", "--inv=IndInv", "--length=0"], "NoError", None),
    ("implies-P",     ["--cinit=CInit", "--init=IndInit", "--inv=" + ",".join(P_INVARIANTS), "--length=0"], "NoError", None),
    # vacuity (a): IndInit (= any state satisfying IndInv) is satisfiable, also in two interesting corners
    ("sat-IndInit",   ["--cinit=CInit", "--init=IndInit", "--inv=NotIndInv", "--length=0"], "Error", 0),
    ("sat-recovering", ["--cinit=CInit", "--init=IndInit", "--inv=NotRecovering", "--length=0"], "Error", 0),
    ("sat-midsave",   ["--cinit=CInit", "--init=IndInit", "--inv=NotMidSave", "--length=0"], "Error", 0),
    # vacuity (b): a deliberately weakened action must break the inductive step
    ("weak-nofsync",  ["--cinit=CInitNoFsync", "--init=IndInit", "--inv=IndInv", "--length=1"], "Error", 1),
    ("weak-noverify", ["--cinit=CInitNoVerify", "--init=IndInit", "--inv=IndInv", "--length=1"], "Error", 1),
]


class ApalacheError(Exception):
    pass


def _itf_plain(v):
    if isinstance(v, dict):
        if "#bigint" in v:
            return int(v["#bigint"])
        if "#set" in v:
            return sorted((_itf_plain(x) for x in v["#set"]), key=repr)
        if "#tup" in v:
            return [_itf_plain(x) for x in v["#tup"]]
        return {k: _itf_plain(x) for k, x in v.items() if not k.startswith("#")}
    if isinstance(v, list):
        return [_itf_plain(x) for x in v]
    return v


def apalache_run(name, args, work, timeout):
    """One `apalache-mc check` under `timeout`; everything it writes goes below `work`."""
    out = os.path.join(work, name)
    tmp = os.path.join(work, "tmp-" + name)
    os.makedirs(tmp)
    env = dict(os.environ, TMPDIR=tmp, JVM_ARGS="-Xmx2g")
    cmd = ["timeout", "-k", "5", str(timeout), "apalache-mc", "check", "--out-dir=" + out, "--run-dir=" + out + "-run"] \
        + args + [APA_MC]
    t0 = time.time()
    p = subprocess.run(cmd, cwd=tlc.SPECS, env=env, stdout=subprocess.PIPE, stderr=subprocess.STDOUT, text=True, errors="replace")
    r = {"name": name, "args": " ".join(args), "rc": p.returncode, "wall_s": round(time.time() - t0, 1), "outcome": None,
         "violated_at_state": None, "out": p.stdout}
    m = re.search(r"The outcome is: (\w+)", p.stdout)
    if m:
        r["outcome"] = m.group(1)
    m = re.search(r"State (\d+): state invariant (\d+) violated", p.stdout)
    if m:
        r["violated_at_state"], r["violated_conjunct"] = int(m.group(1)), int(m.group(2))
    if p.returncode == 124 or p.returncode == 137:
        r["outcome"] = "Timeout"
    r["cex"] = None
    if r["outcome"] == "Error":
        for root, _, files in os.walk(out):
            if "violation1.itf.json" in files:
                with open(os.path.join(root, "violation1.itf.json")) as f:
                    itf = json.load(f)
                r["cex"] = [_itf_plain(st) for st in itf["states"]]
    return r


def apalache_start(quick, work):
    """Start the Apalache jobs in the background (each is one JVM + z3, ~50 s CPU); returns the executor
    and the futures. They overlap with the TLC / replay stages.
    Tier decision (measured): one run costs 40-55 s wall on the shared machine (JVM start, SANY and the
    Snowcat type checker dominate; the SMT part is ~10 s), the three proof commands do not fit into the
    ~60 s of the quick tier and time out at 120 s next to 16 TLC workers / replay processes -> thorough
    tier only. The quick tier keeps the TLC cross-check of the copy (which also evaluates IndInv on every
    reachable state of the bounded model)."""
    if quick:
        return None, []
    scale = int(os.environ.get("VF_TIMEOUT_SCALE", "1") or 1)
    timeout = 600 * scale
    ex = ThreadPoolExecutor(4)
    return ex, [(j, ex.submit(apalache_run, j[0], j[1], work, timeout)) for j in APA_JOBS]


def apalache_collect(rep, ex, futs, xcheck):
    """A wrong outcome on the unchanged spec is a failure of the machinery (the design model or its
    inductive invariant), never a VIOLATION of the code: raise."""
    if ex is None:
        rep.extra["apalache"] = {"status": "not run in the quick tier (thorough tier only: the proof runs need ~3x50 s)",
                                 "copy_vs_original": xcheck}
        return False
    runs, bad = [], []
    for (name, args, expect, at), fut in futs:
        r = fut.result()
        ok = r["outcome"] == expect and (at is None or r["violated_at_state"] == at)
        runs.append({k: r.get(k) for k in ("name", "args", "outcome", "violated_at_state", "violated_conjunct", "wall_s")}
                    | {"expected": expect + ("" if at is None else " at state %d" % at)})
        if not ok:
            bad.append("%s: expected %s%s, got %s (rc=%s)\n%s" % (name, expect, "" if at is None else " at state %d" % at,
                                                                r["outcome"], r["rc"], r["out"][-1500:]))
        elif name.startswith("weak-") and r["cex"] and len(r["cex"]) >= 2:
            s0, s1 = r["cex"][-2], r["cex"][-1]
            rep.sample({"apalache_vacuity": name + ": IndInv is NOT preserved by the weakened protocol",
                        "violated_conjunct_of_IndInv": r.get("violated_conjunct"),
                        "from": {k: s0.get(k) for k in ("pc", "pickle", "newf", "dirty", "mem", "lastCompleted")},
                        "to": {k: s1.get(k) for k in ("pc", "pickle", "newf", "dirty", "mem", "lastCompleted")}})
    ex.shutdown()
    rep.extra["apalache"] = {
        "tool": "apalache-mc 0.58", "module": APA_MC + " (EXTENDS StateCommitApa)", "runs": runs,
        "copy_vs_original": xcheck,
        "proven": ("IndInv is an inductive invariant of StateCommitApa (base: Init => IndInv; step: IndInv /\\ Next => IndInv') "
                   "and IndInv => " + " /\\ ".join(P_INVARIANTS) + ", hence the P layer holds at EVERY depth. "
                   "Unbounded: MaxSnap, MaxInv, MaxCrash, MaxAsync are arbitrary naturals and all counters / snapshot numbers "
                   "are mathematical integers (number of mutations, invocations, crashes and the async nesting are not bounded). "
                   "Bounded: `saved` ranges over sets of at most 8 integers in IndInit (Gen(8)); IndInv/Next use it only through "
                   "membership of <= 6 terms, a universally quantified range condition and single insertions "
                   "(small-model argument in MC_StateCommitApa.tla, not machine checked)."),
        "vacuity": "IndInit satisfiable (negated probes violated at state 0); weakened action(s) break the step at state 1",
    }
    if bad:
        raise ApalacheError("Apalache stage failed on the unchanged spec:\n" + "\n".join(bad))
    return True


def xcheck_copy(res, quick):
    """The typed copy must not diverge from StateCommit.tla: same constants, same invariants (plus IndInv,
    evaluated by TLC on every reachable state) -> same number of distinct states and transitions.
    (The reported depth is not compared: it is not deterministic with several TLC workers.)"""
    cfg = "StateCommitApa_xcheck.cfg" if quick else "StateCommitApa_xcheck_thorough.cfg"
    r = tlc.run("StateCommitApa", cfg, timeout=1500)
    if r.violated:
        raise ApalacheError("TLC: %s violated on StateCommitApa (%s):\n%s" % (r.violated, cfg, r.cex[-2:]))
    x = {"config": cfg, "states_copy": r.distinct, "states_original": res.distinct,
         "transitions_copy": r.generated, "transitions_original": res.generated, "wall_s": round(r.wall, 2),
         "IndInv_checked_by_TLC_on_reachable_states": True}
    if (r.distinct, r.generated) != (res.distinct, res.generated):
        raise ApalacheError("StateCommitApa.tla diverged from StateCommit.tla: %s" % x)
    return x


def main():
    a = common.args(PROP)
    rep = evidence.Report(PROP, a.tier, a.seed)
    rep.rule = ("behaviours = TLC -simulate runs of StateCommit (API-level actions incl. async sections, "
                "crash points, stale lock handling); non-trivial = distinct (crash point, torn file, garbling "
                "class, async-deferred save, refusal) features exercised on the real code; evaluations = crash "
                "images loaded by a fresh real instance")
    rep.assumptions = ["rename is atomic and ordered with respect to earlier renames (the property speaks of torn content only)",
                       "Adler-32 detects the garblings generated (none generated here passed it unnoticed, else reported)",
                       "file-system effects of bob.state are issued through os/open names in its module namespace"]
    quick = a.tier == "quick"
    # (A') started first, runs in the background, collected at the end
    apa_ex, apa_futs = apalache_start(quick, None if quick else common.scratch("vf-c10apa-"))
    # (A) exhaustive design check
    res = tlc.run("StateCommit", "StateCommit.cfg" if quick else "StateCommit_thorough.cfg", coverage=True, timeout=1500)
    rep.add_tlc(res, "StateCommit exhaustive")
    if res.violated:
        rep.violation("model:" + res.violated, {"cex": res.cex})
    tlc.require_coverage(res, ["StartLock", "StartRefused", "SecondInstance", "StartNoNew", "StartFsync", "StartRename",
                               "StartDiscard", "StartLoad", "Mutate", "WriteDirty", "RenameDirtyNew", "AsyncBegin",
                               "AsyncEnd", "Finalize", "FinNoNew", "FinFsync", "FinRename", "FinUnlock", "Crash",
                               "UserRemovesLock"], "StateCommit.cfg")
    for inv in ("ReachDiscard", "ReachRecoverNew"):
        r2 = tlc.run("StateCommit", "StateCommit_reach_%s.cfg" % inv, timeout=300)
        if r2.violated != inv:
            raise tlc.TlcError("vacuity: %s not reachable" % inv)
    xcheck = xcheck_copy(res, quick)
    # (B) generate behaviours
    num = 400 if quick else 6000
    gen = tlc.run("StateCommit", "StateCommit_gen.cfg", workers=1, simulate="num=%d" % num, depth=45,
                  seed=a.seed + 1, timeout=900)
    hists, seen = [], set()
    for h in gen.printed:
        key = json.dumps(h, sort_keys=True)
        if key not in seen and any(x["a"] == "Mutate" for x in h):
            seen.add(key)
            hists.append(h)
    rep.extra["behaviours_generated"] = len(gen.printed)
    rep.extra["behaviours_distinct"] = len(hists)
    common.use_repo()
    import bob.state  # noqa: F401  (import before fork)
    tasks = [(i, h, a.seed, True) for i, h in enumerate(hists)]
    traces = []
    kinds = set()
    with mp.get_context("fork").Pool(common.workers()) as pool:
        for r in pool.imap_unordered(replay_task, tasks, chunksize=4):
            rep.traces += 1
            rep.evaluations += r["images"]
            for nt in r["nontrivial"]:
                rep.nontriv(nt)
            kinds.update(r["mut_kinds"])
            for d in r["drift"]:
                rep.model_drift(d)
            for sig, detail in r["violations"]:
                rep.violation(sig, detail)
            traces.append(r["events"])
            if r["i"] < 2:
                rep.sample({"behaviour": hists[r["i"]], "events_recorded": r["events"][:40]})
    rep.extra["mutating_api_kinds_exercised"] = sorted(kinds)
    # (C) validate the recorded traces against the spec
    rejected = validate_traces(traces, rep)
    rep.extra["traces_rejected_by_spec"] = len(rejected)
    for (i, n, evn, t) in rejected[:50]:
        rep.model_drift("trace %d rejected at event %d %s (after %s)" % (i, n, evn, t[max(0, n - 3):n]))
    # (A') collect the Apalache results
    if apalache_collect(rep, apa_ex, apa_futs, xcheck):
        rep.assumptions.append("design model, unbounded part: IndInv proven inductive by Apalache for arbitrary MaxSnap/MaxInv/"
                               "MaxCrash/MaxAsync and unbounded integers; `saved` bounded to <= 8 elements in the induction hypothesis")
    if rep.drift:
        rep.level = "exploration"
    return rep.finish()


if __name__ == "__main__":
    evidence.main_wrapper(main)
