"""C08  Artifact packing is lossless, corruption is rejected, extraction is confined.

(A) TLC checks specs/ArtifactPack.tla exhaustively: tree algebra (case space), extractor state machine over
    a hostile member grammar (invariant Confined), corruption classes x reader outcomes x builder
    verification (invariant AcceptRule); coverage + reachability (vacuity) configs.
(B) TLC prints every case as JSON (generation config); every case is replayed into the real code:
    (B-i)   every tree is created for real (hostile concrete names), packed through the real
            LocalArchive upload path (TarHelper._pack) and downloaded through the real
            LocalBuilder._downloadPackage (archive download + builder.py 1609-1620), and additionally through
            TarHelper._pack/_extract directly; bob.utils.hashDirectory AND an independent tree walker
            (names, types, modes, contents, link targets, hard link identity) must agree, the audit file
            must come back byte-identical.
    (B-ii)  every hostile member sequence is written with Python's tarfile as a real pax .tgz under the
            artifact name of a scratch file archive and downloaded through the same real path; a sentinel
            tree around the workspace is fingerprinted before and immediately after the archive download.
    (B-iii) the real artifact of TLC trees is corrupted: EVERY truncation length, seed-chosen bit flips per
            region, wrong formats, content mismatches; each is fed through the same real path.

Verdict (P): round trip differs / sentinel changed outside {workspace, audit file} / corrupted artifact
accepted with different content or different audit => VIOLATION.  Disagreement with the mechanism model
(decision, abstract workspace state) that does not violate P => model_drift.
"""
import gzip
import hashlib
import io
import json
import lzma
import multiprocessing as mp
import os
import random
import re
import shutil
import stat
import sys
import tarfile
import tempfile
import threading
import zipfile
import zlib
import concurrent.futures
from concurrent.futures import ThreadPoolExecutor

from vf import common, tlc, evidence

PROP = "C08"
ROOT = None          # scratch root of this run (set in main before the pool forks)

# ---------------------------------------------------------------------------------------------------
# independent tree walker (does not use any Bob code)


def walk(root, sentinel=False):
    """relpath(bytes) -> fingerprint. sentinel=True adds size/mtime/nlink of files (any modification)."""
    root = os.fsencode(root)
    out, inodes = {}, {}

    def rec(d, rel):
        with os.scandir(d) as it:
            entries = sorted(it, key=lambda e: e.name)
        for e in entries:
            r = rel + b"/" + e.name if rel else e.name
            st = os.lstat(e.path)
            m = st.st_mode
            if stat.S_ISDIR(m):
                out[r] = ("d", stat.S_IMODE(m))
                rec(e.path, r)
            elif stat.S_ISLNK(m):
                out[r] = ("l", os.readlink(e.path))
            elif stat.S_ISREG(m):
                with open(e.path, "rb") as f:
                    h = hashlib.sha256(f.read()).hexdigest()
                fp = ("f", stat.S_IMODE(m), h)
                if sentinel:
                    fp += (st.st_size, st.st_mtime_ns, st.st_nlink)
                out[r] = fp
                inodes.setdefault((st.st_dev, st.st_ino), []).append(r)
            else:
                out[r] = ("o", m, st.st_rdev)
    rec(root, b"")
    if not sentinel:
        for grp in inodes.values():
            if len(grp) > 1:
                for r in grp:
                    out[r] = out[r] + (tuple(sorted(grp)),)
    return out


def walk_diff(a, b):
    """first difference between two walks as (aspect, relpath) or None"""
    for r in sorted(set(a) | set(b)):
        if r not in b:
            return ("missing", r)
        if r not in a:
            return ("extra", r)
        x, y = a[r], b[r]
        if x == y:
            continue
        if x[0] != y[0]:
            return ("type", r)
        if x[0] in ("f", "d") and x[1] != y[1]:
            return ("mode", r)
        if x[0] == "f" and x[2] != y[2]:
            return ("content", r)
        if x[0] == "l":
            return ("linktarget", r)
        if x[0] == "f":
            return ("hardlink-identity", r)
        return ("special", r)
    return None


# ---------------------------------------------------------------------------------------------------
# concrete instantiation of the tree algebra

FILE_MODES = {"ma": 0o644, "mb": 0o750}
DIR_MODES = {"ma": 0o755, "mb": 0o700}
NAME_VARIANTS = {
    "plain": ["file%d.txt", "Makefile%d", "lib%d.so.1"],
    "unicode": ["ünïcödé-%d-日本語", "\U0001F642-%d-ελληνικά",
                "%d-" + "ж" * 70, "ẹ́-%d-שלום",
                "not-utf8-\udcff\udcfe-%d-\udce9"],          # raw bytes ff fe / e9 (surrogateescape)
    "shell": ["$(touch PWNED)-%d", "`id`;%d", "a&b|c>%d<d", "*?[%d]", "q'uo\"te\\%d", "#%d!~{}()=%%"],
    "dash": ["-rf%d", "--%d", "-%d", "--help=%d"],
    "space": [" lead%d", "trail%d ", "in  ner%d", "tab\t%d", "new\nline%d"],
}
SIZES = [0, 1, 100, 511, 512, 513, 5000]


def inst_name(cls, i, rng):
    return rng.choice(NAME_VARIANTS[cls]) % i


def node_kinds(nodes):
    """kind per node with empty directories told apart"""
    parents = {nd["p"] for nd in nodes}
    return [("edir" if nd["k"] == "dir" and (i + 1) not in parents else nd["k"]) for i, nd in enumerate(nodes)]


def build_tree(root, nodes, rng, small):
    """Create the abstract tree for real. Returns relpath(bytes) -> (kind, nameclass)."""
    os.makedirs(root)
    paths, info, dirmodes = {0: root}, {}, []
    kinds = node_kinds(nodes)
    for i, nd in enumerate(nodes, 1):
        name = inst_name(nd["n"], i, rng)
        p = os.path.join(paths[nd["p"]], name)
        k = nd["k"]
        info[os.fsencode(os.path.relpath(p, root))] = (kinds[i - 1], nd["n"])
        if k in ("file", "hlp"):
            size = rng.choice([0, 1, 7, 33]) if small else rng.choice(SIZES)
            with open(p, "wb") as f:
                f.write(rng.randbytes(size))
            os.chmod(p, FILE_MODES[nd["m"]])
            os.utime(p, (1500000000 + i, 1500000000 + i))
            if k == "hlp":
                p2 = os.path.join(root, name + ".hl")
                os.link(p, p2)
                info[os.fsencode(os.path.relpath(p2, root))] = ("hlp", nd["n"])
        elif k == "dir":
            os.mkdir(p)
            paths[i] = p
            dirmodes.append((p, DIR_MODES[nd["m"]]))
        elif k == "sym":
            tname = inst_name(nd["n"], i, rng)
            os.symlink(("./" + tname) if nd["m"] == "ma" else rng.choice(["../../" + tname, "/nonexistent/" + tname]), p)
    for p, m in reversed(dirmodes):
        os.chmod(p, m)
    return info


# ---------------------------------------------------------------------------------------------------
# per-worker context: real archive + real builder in a private project directory


class Inline(concurrent.futures.Executor):
    """runs the archive's executor jobs in the calling (main) thread, so that signal.signal works unpatched"""

    def submit(self, fn, *a, **k):
        f = concurrent.futures.Future()
        try:
            f.set_result(fn(*a, **k))
        except BaseException as e:
            f.set_exception(e)
        return f


class _RS:
    def __init__(self, spec):
        self.spec = spec

    def archiveSpec(self):
        return self.spec

    def envWhiteList(self):
        return set()

    def getPolicy(self, p):
        return None


class _Recipe:
    def getLayer(self):
        return []

    def getName(self):
        return "pkg"

    def getPackageName(self):
        return "pkg"


class _Pkg:
    def getName(self):
        return "pkg"

    def getStack(self):
        return ["pkg"]

    def getRecipe(self):
        return _Recipe()


class Step:
    """the minimum of a package step that archive.py / builder._downloadPackage look at"""
    JENKINS = False

    def __init__(self, ws, vid):
        self.ws, self.vid = ws, vid

    def getPackage(self):
        return _Pkg()

    def getWorkspacePath(self):
        return self.ws

    def getStoragePath(self):
        return self.ws

    def getVariantId(self):
        return self.vid

    def isCheckoutStep(self):
        return False

    def getLabel(self):
        return "dist"


class SnapArchive:
    """Delegates to the real archive; calls hook() right after the archive download returned or raised,
    i.e. before the builder's own verification writes its cache files."""

    def __init__(self, real):
        self.real, self.hook, self.result = real, None, None

    def __getattr__(self, n):
        return getattr(self.real, n)

    async def downloadPackage(self, *a, **k):
        try:
            r = await self.real.downloadPackage(*a, **k)
            self.result = ("ret", bool(r))
            return r
        except BaseException as e:
            self.result = ("exc", type(e).__name__, e)
            raise
        finally:
            if self.hook:
                self.hook()


class Ctx:
    def __init__(self):
        self.base = tempfile.mkdtemp(prefix="w", dir=ROOT)
        self.proj = os.path.join(self.base, "proj")
        os.makedirs(self.proj)
        os.chdir(self.proj)
        dn = os.open(os.devnull, os.O_WRONLY)
        os.dup2(dn, 1)
        os.dup2(dn, 2)
        from bob.archive import getArchiver
        from bob.builder import LocalBuilder
        self.archdir = os.path.join(self.base, "archive")
        self.arch = getArchiver(_RS({"backend": "file", "path": self.archdir}))
        self.wrap = SnapArchive(self.arch)
        b = LocalBuilder(0, False, False, False, False, [], "", False, True)
        b.setArchiveHandler(self.wrap)
        b.setLocalDownloadMode("forced")
        b.setLocalUploadMode(True)
        b.setExecutor(Inline())
        self.builder = b
        self.n = 0

    def artifact_path(self, bid):
        return self.arch._remoteName(bid, ".tgz")

    def put(self, bid, data):
        p = self.artifact_path(bid)
        os.makedirs(os.path.dirname(p), exist_ok=True)
        try:
            os.unlink(p)
        except FileNotFoundError:
            pass
        with open(p, "wb") as f:
            f.write(data)

    def download(self, step, bid, hook=None):
        """The real LocalBuilder._downloadPackage (archive download + builder.py 1609-1620).
        Returns the outcome in the vocabulary of the model."""
        from bob.errors import BuildError, BobError
        from bob.state import BobState
        from bob.utils import runInEventLoop
        ws = step.getWorkspacePath()
        D = os.path.dirname(ws)
        for f in ("cache.bin", "audit.json.gz.pickle"):
            try:
                os.unlink(os.path.join(D, f))
            except OSError:
                pass
        BobState().resetWorkspaceState(ws, None)
        self.wrap.hook, self.wrap.result = hook, None
        msg = ""
        try:
            was, _ = runInEventLoop(self.builder._downloadPackage(step, 0, bid))
            fin = "accepted" if was else "notfound"
        except BuildError as e:
            fin, msg = "build_error", str(e)
        except BobError as e:
            fin, msg = "bob_error", str(e)
        except Exception as e:
            fin, msg = "crash", "%s: %s" % (type(e).__name__, e)
        finally:
            self.wrap.hook = None
        ar = self.wrap.result
        if ar is None:
            dec = "no_download_attempt"
        elif ar[0] == "exc":
            dec = "rej_extract" if isinstance(ar[2], BobError) else "crash"
        elif not ar[1]:
            dec = "notfound"
        elif fin == "accepted":
            dec = "accepted"
        elif fin == "build_error":
            dec = "rej_hash" if os.path.lexists(os.path.join(D, "audit.json.gz")) else "rej_noaudit"
        elif fin == "bob_error":
            dec = "rej_audit"
        else:
            dec = "crash"
        return {"dec": dec, "msg": msg[:300], "exc": (ar[1] if ar and ar[0] == "exc" else None)}


_ctx = None


def ctx():
    global _ctx
    if _ctx is None:
        _ctx = Ctx()
    return _ctx


def make_audit(path, bid, result_hash):
    from bob.audit import Audit
    Audit.create(b"\x01" * 20, bid, result_hash).save(path)
    try:
        os.unlink(path + ".pickle")
    except OSError:
        pass
    with open(path, "rb") as f:
        return f.read()


def bid_of(*parts):
    return hashlib.sha1(repr(parts).encode()).digest()


# ---------------------------------------------------------------------------------------------------
# (B-i) round trip of one TLC tree


def _rt_compare(tag, src_ws, dst_ws, info, audit_bytes, audit_path, viol):
    from bob.utils import hashDirectory
    if hashDirectory(src_ws) != hashDirectory(dst_ws):
        d = walk_diff(walk(src_ws), walk(dst_ws))
        kind = info.get(d[1], ("?", "?")) if d else ("?", "?")
        viol("roundtrip:%s:dirhash-differs:%s:%s" % (tag, d[0] if d else "unknown", kind[0]),
             {"first_difference": repr(d)})
        return
    d = walk_diff(walk(src_ws), walk(dst_ws))
    if d:
        kind = info.get(d[1], ("?", "?"))
        viol("roundtrip:%s:%s:%s" % (tag, d[0], kind[0]), {"first_difference": repr(d), "nameclass": kind[1]})
    try:
        with open(audit_path, "rb") as f:
            got = f.read()
    except OSError as e:
        got = None
    if got != audit_bytes:
        viol("roundtrip:%s:audit-differs" % tag, {"have": None if got is None else len(got), "want": len(audit_bytes)})


def roundtrip_task(arg):
    i, nodes, seed = arg
    c = ctx()
    from bob.archive import TarHelper
    from bob.state import BobState
    from bob.utils import hashDirectory, runInEventLoop
    rng = random.Random("%d-tree-%d" % (seed, i))
    out = {"i": i, "viol": [], "evals": 0, "nontriv": set(), "obs": {}}
    case = {"kind": "tree", "nodes": nodes, "i": i}

    def viol(sig, detail):
        out["viol"].append((sig, dict(detail, case=case)))

    srcd = os.path.join(c.base, "src")
    shutil.rmtree(srcd, ignore_errors=True)
    src_ws = os.path.join(srcd, "workspace")
    info = build_tree(src_ws, nodes, rng, small=False)
    for (k, nd) in zip(node_kinds(nodes), nodes):
        out["nontriv"].add("tree:%s:%s:%s" % (k, nd["m"], nd["n"]))
    out["nontriv"].add("shape:" + ",".join("%s@%d" % (k, nd["p"]) for k, nd in zip(node_kinds(nodes), nodes)))
    rh = hashDirectory(src_ws)
    bid = bid_of("rt", seed, i)
    audp = os.path.join(srcd, "audit.json.gz")
    audit_bytes = make_audit(audp, bid, rh)
    step = Step("dev/dist/rt/1/workspace", b"\x01" * 20)
    D = os.path.dirname(step.ws)
    shutil.rmtree(os.path.dirname(D), ignore_errors=True)
    # path 1: real LocalArchive upload (TarHelper._pack) + real builder download
    art = c.artifact_path(bid)
    try:
        if os.path.exists(art):
            os.unlink(art)
        runInEventLoop(c.arch.uploadPackage(step, bid, audp, src_ws, executor=Inline()))
        out["evals"] += 1
        if not os.path.isfile(art):
            raise RuntimeError("no artifact after upload")
    except Exception as e:
        viol("roundtrip:pack-failed:%s" % type(e).__name__, {"error": str(e)[:300]})
        return _ret(out)
    res = c.download(step, bid)
    out["evals"] += 1
    if res["dec"] != "accepted":
        viol("roundtrip:valid-artifact-%s" % res["dec"], res)
    else:
        _rt_compare("archive", src_ws, step.ws, info, audit_bytes, os.path.join(D, "audit.json.gz"), viol)
        if BobState().getResultHash(step.ws) != rh:
            viol("roundtrip:archive:recorded-result-hash-differs", {})
    os.unlink(art)
    # path 2: TarHelper._pack / _extract directly on a memory file
    bio = io.BytesIO()
    d2 = os.path.join(c.base, "direct")
    shutil.rmtree(d2, ignore_errors=True)
    os.makedirs(d2)
    try:
        TarHelper()._pack(None, bio, audp, src_ws)
        bio.seek(0)
        TarHelper()._extract(bio, os.path.join(d2, "audit.json.gz"), os.path.join(d2, "workspace"))
        out["evals"] += 2
        _rt_compare("direct", src_ws, os.path.join(d2, "workspace"), info, audit_bytes,
                    os.path.join(d2, "audit.json.gz"), viol)
    except Exception as e:
        viol("roundtrip:direct-failed:%s" % type(e).__name__, {"error": str(e)[:300]})
    return _ret(out)


def _ret(out):
    out["nontriv"] = sorted(out["nontriv"])
    return out


# ---------------------------------------------------------------------------------------------------
# (B-ii) hostile member sequences

VSN = {"v1": "1", "v0": "0", "v2": "2", "vnone": None}
WRONG_VSN_PAYLOAD = [{"t": "reg", "n": "audit", "l": "-"}, {"t": "reg", "n": "cx", "l": "-"}]
COARSE = {"rej_vsn": "rej_extract", "rej_unknown": "rej_extract", "rej_badlink": "rej_extract",
          "rej_filter": "rej_extract", "rej_oserror": "rej_extract", "rej_tar": "rej_extract"}


def seq_name(members):
    return ",".join("-".join(x for x in (m["t"], m["n"], m["l"]) if x != "-") for m in members)


def hostile_tgz(vsn, members, O, audit_bytes):
    """the member sequence as a real pax tar.gz written with Python's tarfile"""
    names = {"cx": "content/x", "cl": "content/l", "clx": "content/l/x", "ch": "content/h",
             "cup": "content/../victim", "cabs": "content/" + O + "/victim", "abs": O + "/victim",
             "top": "evil", "metax": "meta/other", "audit": "meta/audit.json.gz", "cdir": "content"}
    links = {"up": "..", "absdir": O, "upfile": "../victim", "cx": "content/x", "cl": "content/l",
             "cupfile": "content/../victim", "meta": "meta/audit.json.gz", "absfile": O + "/victim"}
    types = {"reg": tarfile.REGTYPE, "dir": tarfile.DIRTYPE, "sym": tarfile.SYMTYPE, "lnk": tarfile.LNKTYPE,
             "chr": tarfile.CHRTYPE}
    pax = {} if VSN[vsn] is None else {"bob-archive-vsn": VSN[vsn]}
    bio = io.BytesIO()
    with tarfile.open(fileobj=bio, mode="w:gz", format=tarfile.PAX_FORMAT, pax_headers=pax) as tar:
        for j, m in enumerate(members):
            ti = tarfile.TarInfo(names[m["n"]])
            ti.type = types[m["t"]]
            ti.mtime = 1000000000 + j
            ti.mode = {"reg": 0o604, "dir": 0o711, "sym": 0o777, "lnk": 0o611, "chr": 0o600}[m["t"]]
            if m["l"] != "-":
                ti.linkname = links[m["l"]]
            if m["t"] == "chr":
                ti.devmajor, ti.devminor = 1, 3
            if m["t"] == "reg":
                data = audit_bytes if m["n"] == "audit" else ("DATA%d:%s" % (j, m["n"])).encode()
                ti.size = len(data)
                tar.addfile(ti, io.BytesIO(data))
            else:
                tar.addfile(ti)
    return bio.getvalue()


class Sentinel:
    """everything around the workspace inside the worker's scratch root; allowed to change: workspace subtree,
    audit file, .bob-state* of the project"""

    def __init__(self, c, pkg):
        self.c = c
        self.P = os.path.join(c.proj, "dev", "dist", pkg)
        self.D = os.path.join(self.P, "1")
        self.W = os.path.join(self.D, "workspace")
        self.A = os.path.join(self.D, "audit.json.gz")
        self.O = os.path.join(c.base, "outside")
        self.step = Step(os.path.join("dev", "dist", pkg, "1", "workspace"), b"\x01" * 20)
        self.after = None

    def create(self):
        for d in (self.P, self.O):
            if os.path.lexists(d):
                shutil.rmtree(d)
        os.makedirs(os.path.join(self.D, "sib"))
        os.makedirs(os.path.join(self.O, "sub"))
        for p in (os.path.join(self.P, "pvictim"), os.path.join(self.D, "victim"), os.path.join(self.D, "sib", "f"),
                  os.path.join(self.O, "victim"), os.path.join(self.O, "sub", "f")):
            with open(p, "wb") as f:
                f.write(b"VICTIM " + os.path.basename(p).encode())
            os.chmod(p, 0o644)
            os.utime(p, (1111111111, 1111111111))
        for d in (self.P, self.D, os.path.join(self.D, "sib"), self.O, os.path.join(self.O, "sub")):
            os.chmod(d, 0o755)

    def snap(self):
        w = walk(self.c.base, sentinel=True)
        relW = os.fsencode(os.path.relpath(self.W, self.c.base))
        relA = os.fsencode(os.path.relpath(self.A, self.c.base))
        relP = os.fsencode(os.path.relpath(self.c.proj, self.c.base))
        return {r: v for r, v in w.items()
                if not (r == relW or r.startswith(relW + b"/") or r == relA
                        or (os.path.dirname(r) == relP and os.path.basename(r).startswith(b".bob-state")))}

    def hook(self):
        self.after = self.snap()

    def changed(self, before):
        """abstract locations (model vocabulary) of everything that changed outside {workspace, audit}"""
        locs, paths = set(), []
        base = self.c.base
        cls = {os.path.relpath(os.path.join(self.D, "victim"), base): "out:victim",
               os.path.relpath(self.D, base): "out:pdir",
               os.path.relpath(self.O, base): "out:odir",
               os.path.relpath(os.path.join(self.O, "victim"), base): "out:ovictim"}
        for r in sorted(set(before) | set(self.after)):
            if before.get(r) != self.after.get(r):
                rs = os.fsdecode(r)
                loc = cls.get(rs)
                if loc is None:
                    loc = "out:pdir" if os.path.dirname(rs) == os.path.relpath(self.D, base) else \
                          "out:odir" if os.path.dirname(rs) == os.path.relpath(self.O, base) else "out:other"
                locs.add(loc)
                paths.append((rs, repr(before.get(r)), repr(self.after.get(r))))
        return locs, paths

    def project_ws(self):
        """the real workspace in the vocabulary of the model (ws function)"""
        vict = os.lstat(os.path.join(self.D, "victim"))
        ovict = os.lstat(os.path.join(self.O, "victim"))
        keys = [("x", "x"), ("l", "l"), ("lx", "l/x"), ("h", "h"), ("absin", self.O.lstrip("/") + "/victim")]
        fresh = {"x": "ix", "l": "il", "lx": "ilx", "h": "ih", "absin": "iabs"}
        tg = {"..": "up", self.O: "absdir", "../victim": "upfile"}
        res, seen = {}, {}
        for k, rel in keys:
            p = os.path.join(self.W, rel)
            ent = {"ty": "none", "a": "-"}
            try:
                if k == "lx" and os.path.islink(os.path.join(self.W, "l")):
                    raise FileNotFoundError()
                st = os.lstat(p)
                if stat.S_ISLNK(st.st_mode):
                    ent = {"ty": "sym", "a": tg.get(os.readlink(p), "?")}
                elif stat.S_ISDIR(st.st_mode):
                    ent = {"ty": "dir", "a": "-"}
                elif stat.S_ISREG(st.st_mode):
                    ino = (st.st_dev, st.st_ino)
                    if ino == (vict.st_dev, vict.st_ino):
                        a = "V"
                    elif ino == (ovict.st_dev, ovict.st_ino):
                        a = "OV"
                    else:
                        a = seen.setdefault(ino, fresh[k])
                    ent = {"ty": "file", "a": a}
                else:
                    ent = {"ty": "dev", "a": "-"}
            except (FileNotFoundError, NotADirectoryError):
                pass
            res[k] = ent
        return res


def norm_ws(ws):
    """file inodes up to renaming: V / OV / name of the first workspace name that shares the inode"""
    first, res = {}, {}
    for k in ("x", "l", "lx", "h", "absin"):
        e = ws[k]
        if e["ty"] == "file" and e["a"] not in ("V", "OV"):
            e = {"ty": "file", "a": first.setdefault(e["a"], "i" + k)}
        res[k] = e
    return res


def run_hostile(c, vsn, members, result_hash):
    """one real download of the hostile archive. Returns outcome, escaped locations, projected workspace."""
    from bob.utils import hashDirectory
    s = Sentinel(c, "hx")
    s.create()
    bid = bid_of("hostile")
    audit_bytes = make_audit(os.path.join(c.base, "hostile-audit.json.gz"), bid, result_hash)
    payload = members if vsn == "v1" else WRONG_VSN_PAYLOAD
    c.put(bid, hostile_tgz(vsn, payload, s.O, audit_bytes))
    before = s.snap()
    res = c.download(s.step, bid, hook=s.hook)
    if s.after is None:
        s.hook()
    locs, paths = s.changed(before)
    res.update(locs=sorted(locs), paths=paths[:6], ws=s.project_ws(),
               hash=(hashDirectory(s.W) if os.path.isdir(s.W) else None))
    return res


_minimal_known = []


def minimize(c, vsn, members):
    """1-minimal subsequence that still escapes (real executions); names the input class of a violation"""
    def is_subseq(a, b):
        it = iter(b)
        return all(any(x == y for y in it) for x in a)
    for known in _minimal_known:       # a subsequence already shown (by real executions) to escape on its own
        if is_subseq(known, members):
            return known, 0
    cur, n = list(members), 0
    changed = True
    while changed and len(cur) > 1:
        changed = False
        for j in range(len(cur)):
            cand = cur[:j] + cur[j + 1:]
            n += 1
            if run_hostile(c, vsn, cand, b"\0" * 20)["locs"]:
                cur, changed = cand, True
                break
    _minimal_known.append(cur)
    _minimal_known.sort(key=lambda m: (len(m), seq_name(m)))
    return cur, n


def hostile_task(arg):
    """all model behaviours of one (vsn, member sequence): list of dicts with hm/dec/touched/ws"""
    gi, vsn, members, behaviours, seed = arg
    c = ctx()
    out = {"i": gi, "viol": [], "drift": [], "evals": 0, "nontriv": set(), "obs": {}, "n": len(behaviours)}
    case = {"kind": "hostile", "vsn": vsn, "members": members}
    name = seq_name(members) if vsn == "v1" else "vsn-" + vsn
    by_hm = {}
    for b in behaviours:
        by_hm.setdefault(b["hm"], []).append(b)

    def check(real, hm):
        exp = by_hm[hm]
        if real["locs"]:
            mini, n = minimize(c, vsn, members)
            out["evals"] += n
            out["viol"].append(("confine:" + seq_name(mini), {"case": case, "changed": real["paths"], "decision": real["dec"],
                                                              "minimal": mini}))
        if real["dec"] == "crash":
            out["obs"]["hostile-crash:%s" % real["msg"].split(":")[0]] = name
        want_dec = {COARSE.get(b["dec"], b["dec"]) for b in exp}
        ok = [b for b in exp if COARSE.get(b["dec"], b["dec"]) == real["dec"]]
        if not ok:
            out["drift"].append("hostile %s [%s]: code %s (%s), model %s" % (name, hm, real["dec"], real["msg"][:80], sorted(want_dec)))
            return
        if vsn != "v1":
            return
        if not any(norm_ws(b["ws"]) == norm_ws(real["ws"]) for b in ok):
            out["drift"].append("hostile %s [%s]: workspace code %s, model %s" % (
                name, hm, json.dumps(real["ws"], sort_keys=True), json.dumps(ok[0]["ws"], sort_keys=True)))
        elif not any(set(b["touched"]) - {"ws", "audit"} == set(real["locs"]) for b in ok):
            out["drift"].append("hostile %s [%s]: outside effects code %s, model %s" % (
                name, hm, real["locs"], sorted(set(ok[0]["touched"]) - {"ws", "audit"})))
        for b in ok:
            out["nontriv"].add("hostile:%s:%s" % (b["dec"], ",".join(sorted(set(b["touched"]) - {"ws", "audit"}))))

    by_hm["first"] = by_hm.get("na", []) + by_hm.get("mismatch", [])   # the audit carries a wrong result hash
    r1 = run_hostile(c, vsn, members, b"\0" * 20)
    out["evals"] += 1
    check(r1, "first")
    if "match" in by_hm:
        if r1["dec"] == "rej_hash" and r1["hash"] is not None:
            r2 = run_hostile(c, vsn, members, r1["hash"])
            out["evals"] += 1
            check(r2, "match")
        else:
            out["drift"].append("hostile %s: model reaches the hash check, code %s" % (name, r1["dec"]))
    for m in members:
        out["nontriv"].add("member:%s:%s:%s" % (m["t"], m["n"], m["l"]))
    return _ret(out)


# ---------------------------------------------------------------------------------------------------
# (B-iii) corruption of the real artifact of one TLC tree


def gz_layout(data):
    """(end of gzip header, start of trailer) of a single-member gzip file, parsed independently"""
    assert data[:3] == b"\x1f\x8b\x08", "artifact is not gzip"
    flg, pos = data[3], 10
    if flg & 4:
        pos += 2 + int.from_bytes(data[pos:pos + 2], "little")
    if flg & 8:
        pos = data.index(b"\0", pos) + 1
    if flg & 16:
        pos = data.index(b"\0", pos) + 1
    if flg & 2:
        pos += 2
    return pos, len(data) - 8


def tail_start(data):
    """smallest length whose inflated prefix covers everything up to the padded end of the last member"""
    raw = gzip.decompress(data)
    end = 0
    with tarfile.open(fileobj=io.BytesIO(raw)) as t:
        for m in t.getmembers():
            end = max(end, m.offset_data + ((m.size + 511) // 512 * 512 if m.isreg() else 0))
    lo, hi = 0, len(data)
    while lo < hi:
        mid = (lo + hi) // 2
        try:
            n = len(zlib.decompressobj(31).decompress(data[:mid]))
        except zlib.error:
            n = 0
        if n >= end:
            hi = mid
        else:
            lo = mid + 1
    return lo


def corruptions(data, rng, nflips, all_small):
    """(class, label, bytes) for every truncation length and the chosen bit flips"""
    hdr, trl = gz_layout(data)
    t0 = tail_start(data)
    for n in range(len(data)):
        zone = "empty" if n == 0 else "gzhdr" if n < hdr else "body" if n < t0 else "tail"
        yield ("trunc", zone), "trunc@%d/%d" % (n, len(data)), data[:n]
    third = max(1, (trl - hdr) // 3)
    regions = {"magic": (0, 3), "gzflags": (3, 4), "gzmeta": (4, hdr), "dstart": (hdr, hdr + third),
               "dmid": (hdr + third, hdr + 2 * third), "dend": (hdr + 2 * third, trl), "trailer": (trl, len(data))}
    for reg, (a, b) in regions.items():
        bits = list(range(a * 8, b * 8))
        if not (all_small and reg in ("magic", "gzflags", "gzmeta", "trailer")):
            bits = rng.sample(bits, min(nflips, len(bits)))
        for bit in bits:
            d = bytearray(data)
            d[bit // 8] ^= 1 << (bit % 8)
            yield ("flip", reg), "flip@%d.%d/%d" % (bit // 8, bit % 8, len(data)), bytes(d)


def formats(data, src_ws, audp, rng):
    raw = gzip.decompress(data)
    yield ("format", "garbage"), "garbage", rng.randbytes(len(data))
    yield ("format", "gznontar"), "gznontar", gzip.compress(rng.randbytes(700))
    bio = io.BytesIO()
    with zipfile.ZipFile(bio, "w") as z:
        z.writestr("meta/audit.json.gz", open(audp, "rb").read())
        z.writestr("content/data", b"DATA")
    yield ("format", "zip"), "zip", bio.getvalue()
    bio = io.BytesIO()
    with tarfile.open(fileobj=bio, mode="w:gz", format=tarfile.USTAR_FORMAT) as t:
        t.add(audp, "meta/audit.json.gz")
        try:
            t.add(src_ws, "content")
        except (ValueError, UnicodeError):      # names that ustar cannot hold
            pass
    yield ("format", "ustar"), "ustar", bio.getvalue()
    yield ("format", "plaintar"), "plaintar", raw
    yield ("format", "xztar"), "xztar", lzma.compress(raw)


def mutate_tree(ws, what):
    """apply one content mismatch to a rebuilt copy of the tree; False if not applicable"""
    files, others = [], []
    for dp, dn, fn in os.walk(ws):
        for f in sorted(fn):
            p = os.path.join(dp, f)
            (files if os.path.isfile(p) and not os.path.islink(p) else others).append(p)
        for d in sorted(dn):
            p = os.path.join(dp, d)
            if not os.path.islink(p) and not os.listdir(p):
                others.append(p)
    if what == "fileadded":
        with open(os.path.join(ws, "extra.txt"), "wb") as f:
            f.write(b"extra")
        return True
    if what == "filechanged":
        if not files:
            return False
        st = os.stat(files[0])
        with open(files[0], "rb") as f:
            d = bytearray(f.read())
        if d:
            d[0] ^= 1
        else:
            d = bytearray(b"x")
        with open(files[0], "wb") as f:
            f.write(d)
        os.utime(files[0], ns=(st.st_atime_ns, st.st_mtime_ns))
        return True
    if what == "fileremoved":
        if not files and not others:
            return False
        p = (files + others)[-1]
        os.rmdir(p) if os.path.isdir(p) and not os.path.islink(p) else os.unlink(p)
        return True
    if what == "modechanged":
        if not files:
            return False
        os.chmod(files[0], stat.S_IMODE(os.stat(files[0]).st_mode) ^ 0o010)
        return True
    raise ValueError(what)


def corrupt_task(arg):
    i, nodes, seed, nflips, all_small = arg
    c = ctx()
    from bob.archive import TarHelper
    from bob.utils import hashDirectory, runInEventLoop
    out = {"i": i, "viol": [], "drift": [], "evals": 0, "nontriv": set(), "obs": {}, "outcomes": {}, "len": 0}
    srcd = os.path.join(c.base, "csrc")
    shutil.rmtree(srcd, ignore_errors=True)
    src_ws = os.path.join(srcd, "workspace")
    build_tree(src_ws, nodes, random.Random("%d-ctree-%d" % (seed, i)), small=True)
    rh = hashDirectory(src_ws)
    bid = bid_of("corrupt", seed, i)
    audp = os.path.join(srcd, "audit.json.gz")
    audit_bytes = make_audit(audp, bid, rh)
    audit_payload = gzip.decompress(audit_bytes)
    step = Step("dev/dist/cr/1/workspace", b"\x01" * 20)
    D = os.path.dirname(step.ws)
    shutil.rmtree(os.path.dirname(D), ignore_errors=True)
    art = c.artifact_path(bid)
    if os.path.exists(art):
        os.unlink(art)
    try:
        runInEventLoop(c.arch.uploadPackage(step, bid, audp, src_ws, executor=Inline()))
        with open(art, "rb") as f:
            data = f.read()
    except Exception as e:      # packing a generated tree must work (also reported by the round trip part)
        out["viol"].append(("roundtrip:pack-failed:%s" % type(e).__name__,
                            {"case": {"kind": "tree", "nodes": nodes, "i": i}, "error": str(e)[:300]}))
        return _ret(out)
    out["len"] = len(data)
    want = walk(src_ws)
    rng = random.Random("%d-corrupt-%d" % (seed, i))

    def feed(cls, label, blob):
        c.put(bid, blob)
        res = c.download(step, bid)
        out["evals"] += 1
        dec = res["dec"]
        if dec == "accepted":
            d = walk_diff(want, walk(step.ws))
            try:
                with open(os.path.join(D, "audit.json.gz"), "rb") as f:
                    same_audit = gzip.decompress(f.read()) == audit_payload
            except Exception:
                same_audit = False
            if d or not same_audit:
                what = "content" if d else "audit"
                out["viol"].append(("corrupt:%s-%s:accepted-different-%s" % (cls[0], cls[1], what),
                                    {"case": {"kind": "corrupt", "nodes": nodes, "i": i, "corruption": label},
                                     "difference": repr(d), "same_audit": same_audit}))
            else:
                out["obs"]["accepted-identical:%s-%s" % cls] = out["obs"].get("accepted-identical:%s-%s" % cls, 0) + 1
        elif dec == "crash":
            out["obs"]["crash:%s-%s:%s" % (cls[0], cls[1], res["msg"].split(":")[0])] = label
        k = "%s-%s" % cls
        out["outcomes"].setdefault(k, {})
        out["outcomes"][k][dec] = out["outcomes"][k].get(dec, 0) + 1
        return dec

    if feed(("none", "intact"), "intact", data) != "accepted":
        out["viol"].append(("roundtrip:valid-artifact-rejected", {"case": {"kind": "tree", "nodes": nodes, "i": i}}))
        return _ret(out)
    if out["viol"]:     # the intact artifact does not reproduce the tree: a round trip failure, corrupting it says nothing
        out["viol"] = [("roundtrip:archive:intact-artifact-differs", out["viol"][0][1])]
        return _ret(out)
    for cls, label, blob in corruptions(data, rng, nflips, all_small):
        feed(cls, label, blob)
    for cls, label, blob in formats(data, src_ws, audp, rng):
        feed(cls, label, blob)
    for what in ("filechanged", "fileadded", "fileremoved", "modechanged", "auditswapped"):
        md = os.path.join(c.base, "cmut")
        shutil.rmtree(md, ignore_errors=True)
        mws = os.path.join(md, "workspace")
        build_tree(mws, nodes, random.Random("%d-ctree-%d" % (seed, i)), small=True)
        aud = audp
        if what == "auditswapped":
            aud = os.path.join(md, "audit.json.gz")
            make_audit(aud, bid, hashlib.sha1(b"some other tree").digest())
        elif not mutate_tree(mws, what):
            continue
        bio = io.BytesIO()
        TarHelper()._pack(None, bio, aud, mws)
        feed(("mismatch", what), what, bio.getvalue())
    os.unlink(art)
    return _ret(out)


# ---------------------------------------------------------------------------------------------------
# (A) TLC

INVARIANTS = ["TypeOK", "Confined", "AcceptRule", "RejectedNeverUsed"]
ACTIONS = ["AddNode", "XStart", "XUnknown", "XPass", "XAudit", "XBadLink", "XFilter", "XReg", "XDir", "XSym", "XDev",
           "XLink", "XLinkMissing", "XLinkFallback", "XEnd", "BNoAudit", "BHash", "CChoose", "CRead", "CNoAudit",
           "CAuditUnreadable", "CHash"]
REACH = ["ReachSymlinkThenWrite", "ReachHostileAccepted", "ReachHashReject", "ReachDeepTree"]


def cex_actions(out):
    """the action sequence of the first counterexample (tlc.parse_output cannot read actions with record arguments)"""
    acts = []
    for m in re.finditer(r"^State (\d+): <(\w+)(\(.*\))? line \d+", out, re.M):
        if int(m.group(1)) <= len(acts):
            break
        acts.append(m.group(2) + (m.group(3) or ""))
    return acts


def exhaustive(cfg, quick, workdir):
    """Run the exhaustive config; every violated invariant of the unchanged spec is reported, then dropped
    from a derived config so that the remaining invariants, the state count and the coverage are complete."""
    found = []
    with open(os.path.join(tlc.SPECS, cfg)) as f:
        text = f.read()
    cur = cfg
    for _ in range(len(INVARIANTS) + 1):
        res = tlc.run("ArtifactPack", cur, workers=(1 if quick else min(8, int(os.environ.get("VF_WORKERS", "16") or 16))), coverage=True,
                      timeout=15000, heap="3g",
                      env={"JAVA_TOOL_OPTIONS": "-XX:ParallelGCThreads=2 -XX:CICompilerCount=2"})
        if not res.violated:
            return res, found
        if res.violated not in INVARIANTS:
            raise tlc.TlcError("unexpected TLC result %s" % res.violated)
        found.append((res.violated, cex_actions(res.out)))
        text = re.sub(r"^INVARIANT %s\s*$" % res.violated, "", text, flags=re.M)
        cur = os.path.join(workdir, "derived-%d.cfg" % len(found))
        with open(cur, "w") as f:
            f.write(text)
    raise tlc.TlcError("exhaustive run does not complete")


# ---------------------------------------------------------------------------------------------------


def replay_one(path):
    """--replay FILE: re-run the single case of a recorded violation against the current tree"""
    with open(path) as f:
        rec = json.load(f)
    case = rec["detail"]["case"]
    seed = rec.get("seed", 0)
    if case["kind"] == "tree":
        r = roundtrip_task((case["i"], case["nodes"], seed))
    elif case["kind"] == "hostile":
        beh = [{"hm": "na", "dec": "rej_extract", "touched": [], "ws": {}}]
        r = hostile_task((0, case["vsn"], case["members"], beh, seed))
    else:
        r = corrupt_task((case["i"], case["nodes"], seed) + ((4, False) if rec.get("tier") == "quick" else (8, True)))
    sigs = sorted({s for s, _ in r["viol"]})
    os.dup2(_saved_stdout, 1)
    print("replay of %s: %s" % (rec["signature"], "REPRODUCED" if rec["signature"] in sigs else "not reproduced"), flush=True)
    print("  violations now: %s" % sigs, flush=True)
    return 1 if rec["signature"] in sigs else 0


_saved_stdout = None


def main():
    global ROOT, _saved_stdout
    a = common.args(PROP)
    quick = a.tier == "quick"
    if not os.environ.get("VERIF_TMP") and os.access("/dev/shm", os.W_OK):
        os.environ["VERIF_TMP"] = "/dev/shm"      # thousands of tiny fs operations per second: keep them in memory
    ROOT = common.scratch("vf-c08-")
    common.use_repo()
    import bob.archive, bob.builder, bob.audit, bob.state, bob.utils  # noqa: F401,E401  (import before fork)
    if a.replay:
        _saved_stdout = os.dup(1)
        return replay_one(a.replay)
    rep = evidence.Report(PROP, a.tier, a.seed)
    rep.rule = ("cases = every state TLC enumerates in generation mode: every tree of the algebra (B-i), every finished "
                "hostile member sequence incl. the model's decision and abstract effects (B-ii), every corruption class "
                "x reader outcome (B-iii); trees for the corruption loop: all trees up to CorrNodes nodes plus a "
                "seed-chosen sample of larger ones, each with EVERY truncation length, seed-chosen single bit flips "
                "per gzip region, wrong formats and content mismatches; evaluations = real uploads/downloads through "
                "LocalArchive + LocalBuilder._downloadPackage; non-trivial = distinct (kind, mode, name class), tree "
                "shapes, hostile members, (model decision, outside effect) pairs and (corruption class, outcome) pairs")
    rep.assumptions = [
        "the directory hash separates the generated trees (the independent walker checks this on every accepted case)",
        "the gzip CRC of the inner audit.json.gz detects the generated changes of its payload (checked: decoded audit compared)",
        "the hash cache (cache.bin) and the audit pickle cache next to the workspace are absent when a download starts",
        "LocalBuilder._downloadPackage is driven with a stub step object (workspace path, variant id, package name); "
        "archive executor jobs run inline in the main thread of the worker",
        "extraction runs with the privileges of the harness (root here: mknod/chown succeed); the model allows both",
    ]
    nworkers = int(os.environ.get("VF_WORKERS", "16") or 16)
    pool = mp.get_context("fork").Pool(nworkers)
    tdir = tempfile.mkdtemp(prefix="tlc", dir=ROOT)
    tp = ThreadPoolExecutor(8)
    gen_cfg = "ArtifactPack_gen.cfg" if quick else "ArtifactPack_gen_thorough.cfg"
    jenv = {"JAVA_TOOL_OPTIONS": "-XX:ParallelGCThreads=2 -XX:CICompilerCount=2"}
    with open(os.path.join(tlc.SPECS, gen_cfg)) as f:
        gen_text = f.read()
    f_gen = []
    for part in ("tree", "extract", "corrupt"):        # one JVM per part of the case space, side by side
        pcfg = os.path.join(tdir, "gen-%s.cfg" % part)
        with open(pcfg, "w") as f:
            f.write(re.sub(r"Parts = \{[^}]*\}", 'Parts = {"%s"}' % part, gen_text))
        f_gen.append(tp.submit(tlc.run, "ArtifactPack", pcfg, workers=1, timeout=15000, heap="4g", env=jenv))
    f_exh = tp.submit(exhaustive, "ArtifactPack.cfg" if quick else "ArtifactPack_thorough.cfg", quick, tdir)
    f_reach = {r: tp.submit(tlc.run, "ArtifactPack", "ArtifactPack_reach_%s.cfg" % r, workers=1, timeout=6000, heap="1g", env=jenv)
               for r in REACH}
    try:
        rc = _run(a, quick, rep, pool, f_gen, f_exh, f_reach)
    finally:
        pool.terminate()
        tp.shutdown(wait=False, cancel_futures=True)
    return rc


def _run(a, quick, rep, pool, f_gen, f_exh, f_reach):
    import time
    phases = rep.extra.setdefault("phase_wall_s", {})
    printed = []
    for f, part in zip(f_gen, ("tree", "extract", "corrupt")):
        gen = f.result()
        rep.add_tlc(gen, "ArtifactPack generation (%s)" % part)
        printed += gen.printed
    phases["generation_done"] = round(time.time() - rep.t0, 1)
    trees, groups, corrupt_allowed = [], {}, {}
    for p in printed:
        if p["part"] == "tree":
            trees.append(p["nodes"])
        elif p["part"] == "extract":
            groups.setdefault((p["vsn"], json.dumps(p["members"])), []).append(p)
        else:
            corrupt_allowed.setdefault("%s-%s" % tuple(p["cls"]), set()).add(p["dec"])
    trees.sort(key=lambda t: (len(t), json.dumps(t, sort_keys=True)))
    if not trees or not groups or len(corrupt_allowed) < 22:
        raise tlc.TlcError("generation run printed too few cases")
    rep.extra["cases"] = {"trees": len(trees), "hostile_sequences": len(groups),
                          "hostile_behaviours": sum(len(v) for v in groups.values()),
                          "corruption_classes": len(corrupt_allowed)}
    rng = random.Random(a.seed)
    corr_nodes, nsample, nflips = (1, 60, 4) if quick else (2, 700, 8)
    small = [i for i, t in enumerate(trees) if len(t) <= corr_nodes]
    large = [i for i, t in enumerate(trees) if len(t) > corr_nodes]
    chosen = small + sorted(rng.sample(large, min(nsample, len(large))))
    # longest tasks first
    jobs = [("c", (i, trees[i], a.seed, nflips, not quick)) for i in chosen]
    jobs += [("h", (gi, k[0], json.loads(k[1]), v, a.seed)) for gi, (k, v) in enumerate(sorted(groups.items()))]
    jobs += [("t", (i, t, a.seed)) for i, t in enumerate(trees)]
    viol, drift, obs, outcomes, cpu = {}, [], {}, {}, {}
    counts = {"t": 0, "h": 0, "c": 0, "c_evals": 0, "c_bytes": 0}
    for kind, r in pool.imap_unordered(_dispatch, jobs, chunksize=1 if len(jobs) < 4000 else 8):
        counts[kind] += 1
        cpu[kind] = cpu.get(kind, 0.0) + r["cpu"]
        rep.evaluations += r["evals"]
        for nt in r["nontriv"]:
            rep.nontriv(nt)
        for sig, detail in r["viol"]:
            viol.setdefault(sig, []).append(detail)
        drift += r.get("drift", [])
        for k, v in r["obs"].items():
            if isinstance(v, int):
                obs[k] = obs.get(k, 0) + v
            else:
                obs.setdefault(k, v)
        if kind == "t":
            rep.traces += 1
        elif kind == "h":
            rep.traces += r["n"]
        else:
            counts["c_evals"] += r["evals"]
            counts["c_bytes"] += r["len"]
            for cls, d in r["outcomes"].items():
                rep.traces += 1
                for dec, n in d.items():
                    outcomes.setdefault(cls, {})
                    outcomes[cls][dec] = outcomes[cls].get(dec, 0) + n
                    rep.nontriv("corrupt:%s:%s" % (cls, dec))
                    if cls != "none-intact" and dec not in corrupt_allowed.get(cls, ()):
                        drift.append("corruption %s: code %s, model allows %s (tree %s)" % (
                            cls, dec, sorted(corrupt_allowed.get(cls, ())), json.dumps(trees[r["i"]])))
    phases["replay_done"] = round(time.time() - rep.t0, 1)
    # (A) results
    res, model_viol = f_exh.result()
    phases["exhaustive_done"] = round(time.time() - rep.t0, 1)
    rep.add_tlc(res, "ArtifactPack exhaustive")
    for inv, acts in model_viol:
        rep.violation("model:" + inv, {"counterexample_actions": acts,
                                       "note": "invariant violated by the mechanism model as transcribed from the code"})
    tlc.require_coverage(res, ACTIONS, "ArtifactPack exhaustive")
    for name, f in f_reach.items():
        r2 = f.result()
        if r2.violated != name:
            raise tlc.TlcError("vacuity: %s not reachable" % name)
    for sig in sorted(viol):
        rep.violation(sig, dict(viol[sig][0], occurrences=len(viol[sig])))
    for d in sorted(set(drift))[:200]:
        rep.model_drift(d)
    rep.extra["replayed"] = {"trees_round_trip": counts["t"], "hostile_sequences": counts["h"],
                             "trees_corrupted": counts["c"], "corrupted_downloads": counts["c_evals"],
                             "artifact_bytes_truncated_at_every_length": counts["c_bytes"]}
    import resource
    ru = [resource.getrusage(w) for w in (resource.RUSAGE_SELF, resource.RUSAGE_CHILDREN)]
    rep.extra["cpu_s"] = {"tlc_and_driver": round(sum(r.ru_utime + r.ru_stime for r in ru), 1),
                          "replay_round_trip": round(cpu.get("t", 0), 1), "replay_hostile": round(cpu.get("h", 0), 1),
                          "replay_corruption": round(cpu.get("c", 0), 1)}
    rep.extra["corruption_outcomes"] = {k: outcomes[k] for k in sorted(outcomes)}
    rep.extra["observations"] = {k: obs[k] for k in sorted(obs)}
    rep.extra["observation_notes"] = [
        "accepted-identical:*: the corrupted artifact was accepted with the identical tree and the identical decoded audit "
        "(not a violation): the stream reader stops at the end-of-archive block and never reads or checks the gzip "
        "CRC32/ISIZE trailer; flips in MTIME/XFL/OS/FNAME of the gzip header are ignored",
        "crash:* / hostile-crash:*: the download failed with an exception that is not a BobError (traceback instead of "
        "an error message); the artifact is not used",
        "cache mirrors (Tee/MirrorWriter, finding S1 of C09) are not exercised: downloads run without caches",
    ]
    rep.sample({"tree": trees[min(len(trees) - 1, 37)]})
    k0 = sorted(groups)[len(groups) // 2]
    rep.sample({"hostile": groups[k0][0]})
    rep.sample({"corruption_allowed_by_model": {k: sorted(v) for k, v in sorted(corrupt_allowed.items())}})
    if rep.drift:
        rep.level = "exploration"
    return rep.finish()


def _dispatch(job):
    kind, arg = job
    import time
    fn = {"t": roundtrip_task, "h": hostile_task, "c": corrupt_task}[kind]
    t0 = time.process_time()
    r = fn(arg)
    r["cpu"] = time.process_time() - t0
    return kind, r


if __name__ == "__main__":
    evidence.main_wrapper(main)
