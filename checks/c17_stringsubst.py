"""C17  String substitution and conditions follow the documented language.

(A) TLC enumerates specs/StringSubst.tla exhaustively.  The module is the REFERENCE
    SEMANTICS written from the manual (AST of the documented grammar, Render, Value with
    laziness / nounset, !expr with Truth / Render / function forms).  Every TLC state is one
    case (AST, environment); invariants check the reference semantics for self consistency
    (protected text unchanged, untaken branches irrelevant, infix = function form, ...).
(B) every printed case is fed to the real code (Env.substitute, Env.evaluate,
    Env.substituteCondDict, IfExpression) and compared: value / ParseError-vs-value / truth,
    infix form == "$(fun..)" form == fun(..) form on the real code, and on ANY input (all raw
    strings up to a length bound over the meta character alphabet, a hostile corpus, seed
    driven random strings incl. unicode and control characters, mutations of the generated
    cases) no exception other than the BobError family may escape.

Verdict: expected <<"val">>/<<"err">> of a documented-grammar case differs, protected text
changed, infix != function form, or an internal exception on any input.  Where the manual
leaves the result open the spec says <<"any">> and only the exception oracle applies; inputs
outside the documented grammar (raw / random strings) are only subject to the exception oracle.
"""
import collections
import json
import multiprocessing as mp
import os
import random
import sys
import traceback

from vf import common, tlc, evidence

PROP = "C17"
NPROC = int(os.environ.get("VF_WORKERS", "16") or 16)    # default 16; lower it on a loaded machine

# vacuity: every enumeration action of the spec must have produced cases (TLC's -coverage slows this
# print-heavy enumeration down several times, so the families are counted from the printed cases instead)
FAMILIES = {("s", "gen"): "CaseGen", ("s", "tower"): "CaseTower", ("s", "prot"): "CaseProt", ("raw", ""): "StepRaw",
            ("rawe", ""): "StepRawE", ("e", "expr"): "CaseExpr", ("e", "ill"): "CaseIll", ("e", "etower"): "CaseETower",
            ("e", "eprot"): "CaseEProt"}
REACH = ["ReachLazySkip", "ReachNounsetDiffers", "ReachIllTyped", "ReachPrecedence"]

# environments for inputs that are not tied to a generated case
FREE_ENVS = [
    {"A": ["unset"], "B": ["unset"], "sb": False},
    {"A": ["set", "a"], "B": ["set", "b"], "sb": True},
    {"A": ["set", ""], "B": ["set", "\\$B}',)\""], "sb": False},
]


# ---------------------------------------------------------------------------------------------
# calling the real code

class _Tool:
    def __init__(self, env):
        self.environment = env


_env_cache = {}


def mk_env(envj):
    key = json.dumps(envj, sort_keys=True)
    e = _env_cache.get(key)
    if e is None:
        from bob.stringparser import Env, DEFAULT_STRING_FUNS, EXTRA_STRING_FUNS
        e = Env({n: envj[n][1] for n in ("A", "B") if envj[n][0] == "set"})
        funs = dict(DEFAULT_STRING_FUNS)
        funs.update(EXTRA_STRING_FUNS)
        e.setFuns(funs)
        e.setFunArgs({"sandbox": bool(envj["sb"]), "__tools": {"t": _Tool({"V": "tv"})}})
        _env_cache[key] = e
    return e


def _where(exc):
    """qualified name of the Bob function the exception escaped from (stable part of the signature)"""
    frames = [f for f, _ in traceback.walk_tb(exc.__traceback__)
              if os.sep + os.path.join("pym", "bob") + os.sep in f.f_code.co_filename]
    if not frames:
        return "?"
    f = frames[0] if isinstance(exc, RecursionError) else frames[-1]
    name = getattr(f.f_code, "co_qualname", f.f_code.co_name)
    return name.replace(".<locals>", "").replace("<lambda>", "lambda")


def call(fn):
    """-> ("val", x) | ("err", text) | ("internal", ExcName, where, text)"""
    from bob.errors import BobError
    try:
        return ("val", fn())
    except BobError as e:
        return ("err", "%s: %s" % (type(e).__name__, getattr(e, "slogan", e)))
    except (KeyboardInterrupt, SystemExit):
        raise
    except BaseException as e:   # the property: never an internal exception
        return ("internal", type(e).__name__, _where(e), str(e)[:200])


_expr_cache = collections.OrderedDict()


def parse_expr(s):
    r = _expr_cache.get(s)
    if r is None:
        from bob.stringparser import IfExpression
        r = call(lambda: IfExpression(s))
        _expr_cache[s] = r
        if len(_expr_cache) > 4096:
            _expr_cache.popitem(last=False)
    return r


def eval_expr(s, env):
    p = parse_expr(s)
    if p[0] != "val":
        return p
    return call(lambda: env.evaluate(p[1], "p"))


def bool3(s):
    """the documented boolean interpretation; "?" where the manual is silent (surrounding white space)"""
    if s.lower() in ("", "0", "false"):
        return "f"
    if s.strip().lower() in ("", "0", "false"):
        return "?"
    return "t"


# ---------------------------------------------------------------------------------------------
# oracles

class Out:
    def __init__(self):
        self.fails = []
        self.evals = 0
        self.cases = 0
        self.stats = collections.Counter()

    def fail(self, oracle, case, api, expected, got):
        self.fails.append({"oracle": oracle, "api": api, "case": case, "expected": expected, "got": list(got)})

    def internal(self, got, api, src, envj):
        self.fails.append({"oracle": "internal", "api": api, "exc": got[1], "where": got[2], "text": got[3],
                           "case": {"src": src, "env": envj}, "got": list(got)})


def judge(out, case, api, exp, got, src):
    """exp = ["val", x] | ["err"] | ["any"];  got from call()"""
    out.evals += 1
    if got[0] == "internal":
        out.internal(got, api, src, case["env"])
        return
    if exp[0] == "any":
        out.stats["undefined-by-manual"] += 1
        return
    if exp[0] == "err":
        if got[0] != "err":
            out.fail("missing-error", case, api, exp, got)
    elif got[0] == "err":
        out.fail("spurious-error", case, api, exp, got)
    elif got[1] != exp[1] or type(got[1]) is not type(exp[1]):
        out.fail("protected-text-changed" if case.get("f") in ("prot", "eprot") else "wrong-value", case, api, exp, got)


def check_subst(out, c):
    env = mk_env(c["env"])
    src = c["src"]
    out.cases += 1
    judge(out, c, "substitute", c["ns"], call(lambda: env.substitute(src, "p", True)), src)
    judge(out, c, "substitute-nounset-off", c["nn"], call(lambda: env.substitute(src, "p", False)), src)
    b = c["b"]
    expb = ["val", b == "t"] if b in ("t", "f") else ["err"] if b == "err" else ["any"]
    judge(out, c, "evaluate", expb, call(lambda: env.evaluate(src, "p")), src)
    if c["ns"][0] == "val" and b in ("t", "f"):
        expd = {"k": c["ns"][1]}
        if b == "t":
            expd["c"] = "v"
        expd = ["val", expd]
    elif c["ns"][0] == "err":
        expd = ["err"]
    else:
        expd = ["any"]
    judge(out, c, "substituteCondDict", expd,
          call(lambda: env.substituteCondDict({"k": (src, None), "c": ("v", src)}, "p")), src)


def check_expr(out, c):
    env = mk_env(c["env"])
    out.cases += 1
    exp = c["truth"]
    got = {"infix": eval_expr(c["expr"], env)}
    judge(out, c, "IfExpression", exp, got["infix"], c["expr"])
    if c["fun"]:
        got["fun"] = eval_expr(c["fun"], env)
        judge(out, c, "IfExpression-substitution-form", exp, got["fun"], c["fun"])
        got["call"] = eval_expr(c["call"], env)
        judge(out, c, "IfExpression-call-form", exp, got["call"], c["call"])
        sub = call(lambda: env.substitute(c["sub"], "p", False))
        if sub[0] == "val":
            b = bool3(sub[1])
            sub = ("val", b == "t") if b != "?" else None
        if sub is not None:
            got["sub"] = sub
            judge(out, c, "substitute-function-form", exp, sub, c["sub"])
        # the property itself: infix form and function form agree on the real code
        ref = got["infix"]
        for k in ("fun", "call", "sub"):
            g = got.get(k)
            if g is None or g[0] == "internal" or ref[0] == "internal":
                continue
            if g[0] != ref[0] or (g[0] == "val" and g[1] != ref[1]):
                out.fail("infix-ne-function-form", c, k, list(ref), g)
        out.stats["infix-vs-function-form"] += 1


def check_free(out, src, kind, envs=FREE_ENVS):
    """exception oracle only"""
    out.cases += 1
    for envj in envs:
        env = mk_env(envj)
        if kind == "s":
            for api, fn in (("substitute", lambda: env.substitute(src, "p", True)),
                            ("substitute-nounset-off", lambda: env.substitute(src, "p", False)),
                            ("evaluate", lambda: env.evaluate(src, "p"))):
                g = call(fn)
                out.evals += 1
                out.stats["free-" + g[0]] += 1
                if g[0] == "internal":
                    out.internal(g, api, src, envj)
        else:
            g = eval_expr(src, env)
            out.evals += 1
            out.stats["free-" + g[0]] += 1
            if g[0] == "internal":
                out.internal(g, "IfExpression", src, envj)
            if parse_expr(src)[0] != "val":
                break


# ---------------------------------------------------------------------------------------------
# random / hostile inputs (exception oracle only)

META_S = list("${}(),\"'\\:-+ ")
META_E = list("\"'\\()!=<>&|, $")
WIDE = list("abAB01_tiV.^*[]?|#%/;@~`\t\n\r\x00\x1b\x7f") + ["\u00e4", "\u00df", "\u20ac", "\u0301", "\u200b", "\u202e",
                                                             "\U0001f600", "\ud800", "\udfff", "\ufeff", "\u0000"]
REGEX = list("a{}()[]\\?*+|^$.0123456789,<>gP=:-!ix#")
FUNS = ["eq", "ne", "not", "or", "and", "if-then-else", "strip", "subst", "match", "is-sandbox-enabled",
        "is-tool-defined", "get-tool-env", "resubst", "matchScm", "nofun", ""]

HOSTILE_S = [
    "", "$", "\\", "${", "$(", "${A", "${A:", "${A:}", "${A:x}", "${A-", "$(eq", "$(eq,", "$()", "$(,)", "${}", "${:-}",
    "${${A}}", "${$(eq,a,a)}", "'", "\"", "\"'\"", "$1", "$\u00e4", "${\u00e4}", "\x00", "$\x00", "${\x00}", "\ud800",
    "$(match,a,a{99999999999})", "$(match,a,a{4294967296},i)", "$(match,a,'(?P<x')", "$(match,a,(?i)", "$(match,a,\\\\)",
    "$(match,a,[)", "$(match,a,'(?<=a*)b')", "$(match,a,'" + "(" * 20 + ")" * 20 + "')", "$(match,a,'(?L)a')",
    "$(match,a,b,)", "$(match,a,b,x)", "$(match,\x00,\x00)", "$(match,a,'a{2,1}')", "$(match,a,'\\N{XX}')",
    "$(resubst,a,\\\\g<x>,aaa)", "$(resubst,a,\\\\1,aaa)", "$(resubst,(a),\\\\g<1,aaa)", "$(resubst,a,\\\\,aaa)",
    "$(resubst,a,\\\\x,aaa)", "$(resubst,a{99999999999},b,aaa)", "$(resubst,'(?P<n>a)','\\g<n>\\g<m>',aaa)",
    "$(resubst,a,b,aaa,i)", "$(resubst,a,b,aaa,x)", "$(resubst,,x,ab)", "$(resubst,a,'\\g<0>\\g<00000000000000000001>',a)",
    "$(subst,,x,ab)", "$(get-tool-env)", "$(get-tool-env,t)", "$(get-tool-env,x,V)", "$(get-tool-env,t,W)",
    "$(get-tool-env,t,V,d,e)", "$(is-tool-defined)", "$(is-sandbox-enabled,x)", "$(matchScm,a,b)", "$(matchScm)",
    "$(if-then-else)", "$(or)", "$(and)", "$(not)", "$(strip)", "$(eq)", "$(ne,a)",
    "${A-" * 20 + "}" * 20, "$(strip," * 20 + ")" * 20, "\"" * 41, "'" * 41, "\\" * 41, "$" * 40,
]
HOSTILE_E = [
    "", " ", "x", "!", "\"", "'", "\"\\", "\"\\\"", "()", "(", ")", "\"a\" ==", "== \"a\"", "\"a\" \"b\"", "f(", "f(,)", "f(\"a\",)",
    "1()", "-()", "f-g(\"a\")", "\"a\" <> \"b\"", "\"a\" = \"b\"", "\"a\" & \"b\"", "\"a\" | \"b\"", "\"\\n\"", "\"\\x\"",
    "\x00", "\"\x00\"", "\"\ud800\" == '\ud800'", "\u00e4()", "\"a\" == \"b\" == \"c\"", "\"a\" < \"b\" < \"c\"",
    "!\"a\" == \"b\"", "\"a\" == !\"b\"", "(\"a\" == \"b\") < \"c\"", "(\"a\" && \"b\") != \"c\"", "eq(\"a\" == \"b\", \"c\")",
    "eq((\"a\"), \"c\")", "match(\"a\", \"a{99999999999}\")", "match(\"a\", \"(\")", "resubst(\"a\", \"\\\\\\\\g<x>\", \"aaa\")",
    "get-tool-env(\"t\", \"W\")", "matchScm(\"a\", \"b\")", "is-sandbox-enabled(\"x\")", "nofun()", "\"$(nofun)\"", "\"${\"", "\"$\"",
    "'a' 'b'", "''''", "!!!!!!!!\"a\"", "\"a\" " + "&& \"a\" " * 12, "\"a\" " + "|| !\"a\" " * 8,
] + ["(" * n + "\"a\"" + ")" * n for n in range(1, 13)] \
  + ["(" * n + "\"a\" == \"a\"" + ")" * n for n in range(1, 9)] \
  + ["not(" * n + "\"a\"" + ")" * n for n in (4, 8, 16)]


def rnd_string(rng, meta, maxlen):
    n = rng.choice((0, 1, 2, 3, 4, 5, 6, 8, 10, 14, 20, maxlen))
    out = []
    for _ in range(rng.randint(0, n)):
        r = rng.random()
        out.append(rng.choice(meta) if r < 0.6 else rng.choice(WIDE) if r < 0.85 else rng.choice("abAB01"))
    return "".join(out)


def mutate(rng, s):
    s = list(s)
    for _ in range(rng.randint(1, 3)):
        op = rng.randrange(5)
        i = rng.randrange(len(s) + 1)
        if op == 0 and s:
            del s[min(i, len(s) - 1)]
        elif op == 1:
            s.insert(i, rng.choice(META_S + META_E + WIDE))
        elif op == 2 and s:
            j = rng.randrange(len(s) + 1)
            a, b = min(i, j), max(i, j)
            s[a:a] = s[a:b]
        elif op == 3 and len(s) > 1:
            j = rng.randrange(len(s))
            k = min(i, len(s) - 1)
            s[k], s[j] = s[j], s[k]
        else:
            del s[i:]
    return "".join(s)[:64]


def rnd_regex(rng):
    return "".join(rng.choice(REGEX) for _ in range(rng.randint(0, 8)))


def q(s):
    return "'" + s + "'" if "'" not in s else "\"" + s.replace("\\", "\\\\").replace("\"", "\\\"").replace("$", "\\$") + "\""


def random_inputs(seed, n, base_s, base_e):
    """deterministic in (seed, n): list of (kind, src); expressions are rare (the real parser needs ~10 ms each)"""
    rng = random.Random(seed * 7919 + 17)
    res = []
    for i in range(n):
        r = i % 6 if i % 48 >= 2 else 6 + i % 2
        if r in (0, 1):
            res.append(("s", rnd_string(rng, META_S, 24)))
        elif r in (2, 3):
            res.append(("s", mutate(rng, rng.choice(base_s)) if base_s else rnd_string(rng, META_S, 24)))
        elif r == 4:
            f = rng.choice(FUNS)
            args = [rnd_string(rng, META_S, 6) if rng.random() < 0.5 else rng.choice(["a", "$A", "${B-}", "", "'x'", "i"])
                    for _ in range(rng.randint(0, 4))]
            res.append(("s", "$(" + ",".join([f] + args) + ")"))
        elif r == 5:
            if rng.random() < 0.5:
                res.append(("s", "$(match,%s,%s%s)" % (rng.choice(["a", "$A", "aaa"]), q(rnd_regex(rng)), rng.choice(["", ",i"]))))
            else:
                res.append(("s", "$(resubst,%s,%s,%s)" % (q(rnd_regex(rng)), q(rnd_regex(rng)), rng.choice(["a", "$A", "aaa"]))))
        elif r == 6:
            res.append(("e", rnd_string(rng, META_E, 16)))
        else:
            res.append(("e", mutate(rng, rng.choice(base_e)) if base_e else rnd_string(rng, META_E, 16)))
    return res


# ---------------------------------------------------------------------------------------------
# workers

def work(task):
    kind, items = task
    common.use_repo()
    import warnings
    warnings.simplefilter("ignore")          # FutureWarning of re on random patterns
    out = Out()
    for it in items:
        if kind == "s":
            check_subst(out, it)
        elif kind == "e":
            check_expr(out, it)
        elif kind == "raw":
            check_free(out, it, "s")
        elif kind == "rawe":
            check_free(out, it, "e", FREE_ENVS[:2])
        else:
            check_free(out, it[1], it[0])
    return out.fails, len(out.fails), out.evals, out.cases, dict(out.stats)


def chunks(kind, items, n):
    return [(kind, items[i:i + n]) for i in range(0, len(items), n)]


def signature(f):
    if f["oracle"] == "internal":
        return "internal:%s@%s" % (f["exc"], f["where"])
    return None


DELIM = set("\"'$,)}:-+")


def lone_escaped_delimiter(src):
    """signature aid only: the input contains \\c, c a meta character, with nothing but token boundaries around it"""
    i = 0
    while i < len(src) - 1:
        if src[i] == "\\":
            c = src[i + 1]
            j = i
            while j > 0 and (src[j - 1].isalnum() or src[j - 1] == "_"):
                j -= 1                       # a token also starts after a bare $NAME
            before = i == 0 or src[i - 1] in DELIM or src[i - 1] in "{(" or (j < i and j > 0 and src[j - 1] == "$")
            after = i + 2 >= len(src) or src[i + 2] in DELIM
            if c in DELIM and before and after:
                return True
            i += 2
        else:
            i += 1
    return False


def report_failures(rep, fails, total):
    """Group the failures into few, stable signatures: internal exceptions by (exception, Bob function);
    oracle failures by the node kinds of the smallest failing cases."""
    def src_of(f):
        c = f["case"]
        return c.get("src", c.get("expr", ""))
    fails.sort(key=lambda f: (len(src_of(f)), src_of(f), f.get("api", "")))
    seen_int = {}
    lone = {}
    groups = collections.defaultdict(list)       # oracle -> [(tagset, fail)]
    counts = collections.Counter()
    for f in fails:
        if f["oracle"] == "internal":
            sig = signature(f)
            counts[sig] += 1
            seen_int.setdefault(sig, f)
            continue
        tags = frozenset(f["case"].get("tags", []))
        texts = [f["case"].get(k, "") for k in ("src", "expr", "fun", "call", "sub")]
        if "esc" in tags and any(lone_escaped_delimiter(t) for t in texts):
            counts["lone"] += 1
            lone.setdefault(f["oracle"], f)
            continue
        g = groups[f["oracle"]]
        hit = [t for t, _ in g if t <= tags]
        if hit:
            counts[(f["oracle"], hit[0])] += 1
            continue
        counts[(f["oracle"], tags)] += 1
        g.append((tags, f))
    for sig, f in seen_int.items():
        rep.violation(sig, {"smallest_input": f["case"], "api": f["api"], "exception": f["got"],
                            "inputs_with_this_signature": counts[sig], "failures_total": total})
    if lone:
        f = min(lone.values(), key=lambda f: (len(src_of(f)), src_of(f)))
        rep.violation("value:lone-escaped-delimiter",
                      {"smallest_case": f["case"], "api": f["api"], "expected": f["expected"], "got": f["got"],
                       "oracles_failing": sorted(lone), "cases_with_this_signature": counts["lone"], "failures_total": total})
    for oracle, g in groups.items():
        for tags, f in g[:6]:
            sig = "%s:%s:%s" % (oracle, f["case"].get("f", "?"), "+".join(sorted(tags)))
            rep.violation(sig, {"smallest_case": f["case"], "api": f["api"], "expected": f["expected"], "got": f["got"],
                                "cases_with_this_signature": counts[(oracle, tags)], "failures_total": total})


def replay(path):
    """bin/check C17 --replay evidence/replay/C17-n.json : run the recorded input again"""
    common.use_repo()
    with open(path) as f:
        d = json.load(f)["detail"]
    c = d.get("smallest_case") or d.get("smallest_input")
    out = Out()
    if "ns" in c:
        check_subst(out, c)
    elif "truth" in c:
        check_expr(out, c)
    else:
        check_free(out, c.get("src", ""), "s", [c["env"]])
        check_free(out, c.get("src", ""), "e", [c["env"]])
    print(json.dumps({"case": c, "failures": out.fails}, indent=1, default=str))
    return 1 if out.fails else 0


def main():
    a = common.args(PROP)
    if a.replay:
        return replay(a.replay)
    rep = evidence.Report(PROP, a.tier, a.seed)
    quick = a.tier == "quick"
    # import the code under test first (before the long TLC phase, before forking) and make sure it IS the tree
    # under test: `import bob` silently falls back to an installed /repo/pym if $VERIF_REPO has disappeared
    root = os.path.realpath(common.use_repo())
    import bob.stringparser
    import bob.errors
    for mod in (bob.stringparser, bob.errors):
        if not os.path.realpath(mod.__file__).startswith(root + os.sep):
            raise RuntimeError("%s imported from %s, not from the tree under test %s" % (mod.__name__, mod.__file__, root))
    rep.rule = ("case = one TLC state of StringSubst (AST of the documented grammar + environment, or a raw string); every "
                "case is evaluated by the real Env.substitute / Env.evaluate / substituteCondDict / IfExpression and "
                "compared with the reference value; non-trivial = distinct sets of node kinds with >= 2 kinds; "
                "evaluations = calls of the real code")
    rep.assumptions = ["the reference semantics StringSubst.tla transcribes the manual correctly (its self-consistency "
                       "invariants are model checked; readings where the manual is silent are marked 'any' and not judged)",
                       "regular expression functions are judged on a fixed pattern catalogue only",
                       "inputs nesting deeper than the generated towers / longer than 64 characters are not exercised "
                       "(Python recursion limit)"]
    # (A) exhaustive enumeration = model check of the reference semantics
    cases = []
    for cfg in (["StringSubst.cfg"] if quick else ["StringSubst_thorough.cfg", "StringSubst_thorough_rich.cfg"]):
        res = tlc.run("StringSubst", cfg, workers=NPROC, timeout=15000, heap="12g")
        rep.add_tlc(res, cfg)
        if res.violated:
            rep.violation("model:" + res.violated, {"cex": res.cex[-2:], "config": cfg})
        cases += res.printed
        res.printed = None
        res.out = ""
    # vacuity: the negated reachability configs must each be violated (tiny; run side by side)
    from concurrent.futures import ThreadPoolExecutor
    with ThreadPoolExecutor(max(1, min(NPROC, len(REACH)))) as ex:
        for inv, r2 in zip(REACH, ex.map(lambda inv: tlc.run("StringSubst", "StringSubst_reach_%s.cfg" % inv,
                                                             workers=1, timeout=3000), REACH)):
            if r2.violated != inv:
                raise tlc.TlcError("vacuity: %s not reachable" % inv)
    by = collections.defaultdict(list)
    seen = set()
    for c in cases:
        key = (c["k"], c.get("src", c.get("expr")), json.dumps(c.get("env"), sort_keys=True))
        if key in seen and c["k"] in ("raw", "rawe"):
            continue
        seen.add(key)
        by[c["k"]].append(c)
    del seen
    fams = collections.Counter((c["k"], c.get("f", "")) for c in cases)
    missing = [act for fam, act in FAMILIES.items() if fams[fam] == 0]
    if missing:
        raise tlc.TlcError("vacuity: actions that produced no case: %s" % missing)
    rep.extra["cases_by_family"] = {"%s/%s" % k: v for k, v in sorted(fams.items())}
    # the same rendered source must not have two different reference values (ambiguous Render)
    ref = {}
    for c in by["s"]:
        key = (c["src"], json.dumps(c["env"], sort_keys=True))
        val = (c["ns"], c["nn"])
        if ref.setdefault(key, val) != val:
            raise tlc.TlcError("reference semantics ambiguous for %r: %s vs %s" % (key, ref[key], val))
    srcs = {c["src"] for c in by["s"]}
    exprs = sorted({c["expr"] for c in by["e"]})
    raw = [c["src"] for c in by["raw"]]
    rawe = [c["src"] for c in by["rawe"]]
    rep.extra["raw_strings_that_are_documented_grammar"] = sum(1 for s in raw if s in srcs)
    rep.extra["raw_expressions_that_are_documented_grammar"] = len(set(rawe) & set(exprs))
    by["e"].sort(key=lambda c: c["expr"])        # parse cache locality
    nrand = 96000 if quick else 1500000
    rnd = random_inputs(a.seed, nrand, sorted(srcs)[::7], exprs[::3])
    rnd += [("s", s) for s in HOSTILE_S] + [("e", s) for s in HOSTILE_E] + [("e", s) for s in HOSTILE_S] + [("s", s) for s in HOSTILE_E]
    rep.extra["random_and_hostile_inputs"] = len(rnd)
    tasks = (chunks("s", by["s"], 2000) + chunks("e", by["e"], 300) + chunks("raw", raw, 4000)
             + chunks("rawe", rawe, 500) + chunks("free", rnd, 2000))
    tasks.sort(key=lambda t: -len(t[1]) * {"s": 4, "e": 60, "raw": 9, "rawe": 30, "free": 12}[t[0]])
    for c in by["s"]:
        if len(c["tags"]) >= 2:
            rep.nontriv("s:" + "+".join(sorted(c["tags"])))
    for c in by["e"]:
        if len(c["tags"]) >= 2:
            rep.nontriv("e:" + "+".join(sorted(c["tags"])))
    for c in (by["s"][len(by["s"]) // 3], by["s"][-1], by["e"][len(by["e"]) // 2], by["e"][-1]):
        rep.sample(c)
    fails, total, stats = [], 0, collections.Counter()
    with mp.get_context("fork").Pool(NPROC) as pool:
        for f, n, evals, ncases, st in pool.imap_unordered(work, tasks):
            fails += f
            total += n
            rep.evaluations += evals
            rep.traces += ncases
            stats.update(st)
    rep.extra["replay_stats"] = dict(stats)
    rep.extra["oracle_failures"] = total
    if stats["free-val"] == 0 or stats["free-err"] == 0 or stats["infix-vs-function-form"] == 0:
        raise RuntimeError("replay vacuous: %s" % dict(stats))
    report_failures(rep, fails, total)
    return rep.finish()


if __name__ == "__main__":
    evidence.main_wrapper(main)
