#!/venv/bin/python
"""Stand-alone reproduction of S5 (C19): `bob archive` never drops index rows of artifacts
that vanished from the archive; the phantom rows take LIMIT slots, are listed by `find` and
`clean --dry-run`, and keep their references alive.

    /venv/bin/python /verif/checks/repro_c19_s5.py            # against /repo (or $VERIF_REPO)

Two artifacts of the same package are uploaded into a `file` archive (real Audit objects,
packed by the real LocalArchive code), the archive is scanned, the NEWER artifact is removed
behind the back of `bob archive` (rm, rsync --delete, another machine's clean, ...), then

    bob archive -l clean 'meta.package == "app" LIMIT 1'

is expected to keep the one remaining artifact (it is the newest existing match).  The
unchanged code deletes it: the archive is empty afterwards.  Exit status 1 = defect present,
0 = not present.
"""
import os
import shutil
import subprocess
import sys
import tempfile
from datetime import datetime, timezone

REPO = os.environ.get("VERIF_REPO", "/repo")
sys.path.insert(0, os.path.join(REPO, "pym"))


def upload(archive, work, n, date):
    from bob.audit import Audit
    from bob.archive import LocalArchive
    bid = bytes([n]) * 20
    audit = Audit.create(bytes([0x10 + n]) * 20, bid, bytes([0x20 + n]) * 20)
    for k, v in (("bob", "repro"), ("language", "bash"), ("recipe", "app"), ("package", "app"), ("step", "dist")):
        audit.addDefine(k, v)
    audit.getArtifact().getBuildInfo()["date"] = date.isoformat()
    d = os.path.join(work, "a%d" % n)
    os.makedirs(os.path.join(d, "content"))
    with open(os.path.join(d, "content", "result.txt"), "w") as f:
        f.write("build %d\n" % n)
    audit.save(os.path.join(d, "audit.json.gz"))
    res = LocalArchive({"backend": "file", "path": archive})._uploadPackage(
        bid, ".tgz", os.path.join(d, "audit.json.gz"), os.path.join(d, "content"))
    assert res[0] == "ok", res
    h = bid.hex()
    return os.path.join(h[0:2], h[2:4], h[4:] + "-1.tgz")


def bob(archive, *args):
    env = dict(os.environ, PYTHONPATH=os.path.join(REPO, "pym"))
    p = subprocess.run([sys.executable, os.path.join(REPO, "bob"), "archive", "-l"] + list(args),
                       cwd=archive, env=env, stdout=subprocess.PIPE, stderr=subprocess.STDOUT, text=True)
    print("$ bob archive -l %s\n%s" % (" ".join(map(repr, args)), p.stdout), end="")
    assert p.returncode == 0, p.returncode
    return p.stdout


def tgz(archive):
    return sorted(os.path.relpath(os.path.join(dp, f), archive)
                  for dp, dn, fn in os.walk(archive) for f in fn if f.endswith(".tgz"))


def main():
    work = tempfile.mkdtemp(prefix="vf-repro-c19-")
    try:
        archive = os.path.join(work, "archive")
        os.makedirs(archive)
        old = upload(archive, work, 1, datetime(2024, 1, 1, tzinfo=timezone.utc))
        new = upload(archive, work, 2, datetime(2024, 6, 1, tzinfo=timezone.utc))
        print("archive:", tgz(archive))
        bob(archive, "scan")
        os.unlink(os.path.join(archive, new))
        print("removed externally:", new)
        print("archive:", tgz(archive))
        listed = bob(archive, "find", 'meta.package == "app"')
        dry = bob(archive, "clean", "--dry-run", 'meta.package == "app" LIMIT 1')
        bob(archive, "clean", 'meta.package == "app" LIMIT 1')
        left = tgz(archive)
        print("archive after clean:", left)
        bad = []
        if new in listed:
            bad.append("find lists the vanished artifact")
        if old in dry:
            bad.append("--dry-run announces the deletion of the only existing match")
        if left != [old]:
            bad.append("clean '... LIMIT 1' deleted the only existing artifact that matches")
        for b in bad:
            print("DEFECT:", b)
        if not bad:
            print("ok: the remaining artifact was kept")
        return 1 if bad else 0
    finally:
        shutil.rmtree(work, ignore_errors=True)


if __name__ == "__main__":
    sys.exit(main())
