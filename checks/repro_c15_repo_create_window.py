"""C15: __addPackage creates repo.json with open(fn, "x") (share.py:201), and only then locks and writes it. Between
creation and the first write the file exists and is empty; a gc or a second install that wins the flock in between
runs json.load() on the empty file -> raw JSONDecodeError ("... or because the store is still empty").
The window is hit deterministically by running the second operation from inside lockFile() of the creator.
Exit status 1 = defect present.   Run: /venv/bin/python checks/repro_c15_repo_create_window.py"""
import os, sys, tempfile, shutil
sys.path.insert(0, os.path.join(os.environ.get("VERIF_REPO", "/repo"), "pym"))
import bob.share as share
from bob.utils import hashDirectory

root = tempfile.mkdtemp(prefix="repro-c15-")


def project(name, content):
    d = os.path.join(root, name, "dev", "dist", "pkg", "1")
    ws = os.path.join(d, "workspace")
    os.makedirs(ws)
    with open(os.path.join(ws, "result.txt"), "w") as f:
        f.write(content)
    with open(os.path.join(d, "audit.json.gz"), "w") as f:
        f.write(name)
    return ws


def run(label, other):
    store = os.path.join(root, "store-" + label)
    orig = share.lockFile
    out = []

    def spy(fd, exclusive):
        if os.path.basename(fd.name) == "repo.json" and fd.mode.startswith("x") and not out:
            share.lockFile = orig          # the creator has created repo.json but not locked it yet
            try:
                out.append(("ok", other(store)))
            except Exception as e:
                out.append(("RAISED", "%s: %s" % (type(e).__name__, e)))
        orig(fd, exclusive)
    share.lockFile = spy
    try:
        ws = project("A" + label, "a")
        r = share.LocalShare({"path": store}).installSharedPackage(ws, b"\x11" * 20, hashDirectory(ws), True)
    finally:
        share.lockFile = orig
    print("%s: first install -> %r; concurrent operation in the creation window: %r" % (label, r[1], out))
    return any(k == "RAISED" for k, _ in out)


try:
    bad = run("gc", lambda store: share.LocalShare({"path": store, "quota": "1G"}).gc(False, False))

    def second_install(store):
        ws = project("B", "bb")
        return share.LocalShare({"path": store}).installSharedPackage(ws, b"\x22" * 20, hashDirectory(ws), True)[1]
    bad |= run("install", second_install)
    sys.exit(1 if bad else 0)
finally:
    shutil.rmtree(root, ignore_errors=True)
