"""C02  Variant-Id separates exactly what a step executes and consumes.

(A) TLC checks specs/VariantId.tla exhaustively over the catalogue of base projects x the complete
    single-edit catalogue (one named action per edit kind): TypeOK, RevertRestores, Propagates, every edit
    action taken (from the printed states; TLC's -coverage instrumentation is not usable on this module)
    and the *_reach_* vacuity configs.  The spec's id of a step is its
    execution tuple Exec (injective by construction).
(B) TLC prints every (base project, edit) state as JSON.  The driver writes base and neighbour as real
    recipes, parses them in-process with the real parser and takes Step.getVariantId() of every valid step.
      * for all step pairs drawn from base U neighbour: "ids equal" must equal "Exec tuples equal"
        (TLC's own partition `cls`, cross-checked against the driver's canonical classes);
      * all ids of the whole run are bucketed: one bucket = one Exec class (collisions / spurious
        differences between unrelated cases);
      * the edit is reverted in the same project directory (Bob's parse caches stay in place): the ids
        must be the ones of the base project again.
    Independently of the ids the real steps are projected onto the tuple (executed script fragments in
    order, values of the strong variables, tools, arguments); a disagreement there is model_drift.

Verdict (P): equal Exec and different ids = spurious rebuild, different Exec and equal ids = collision.
Signatures name the edit kind and the tuple component that distinguishes the colliding steps.
"""
import hashlib
import json
import multiprocessing as mp
import os
import shutil
import sys

from vf import common, tlc, evidence, projgen

PROP = "C02"
GLUE = '\ncd "${BOB_CWD}"\n'
LABEL = {"c": "checkout", "b": "build", "p": "package"}
PLACE = {"S": "Setup", "M": "Script", "F": "Finalize"}
VLNAME = {"cv": "checkoutVars", "bv": "buildVars", "pv": "packageVars",
          "cvw": "checkoutVarsWeak", "bvw": "buildVarsWeak", "pvw": "packageVarsWeak"}
TLNAME = {"ct": "checkoutTools", "bt": "buildTools", "pt": "packageTools",
          "ctw": "checkoutToolsWeak", "btw": "buildToolsWeak", "ptw": "packageToolsWeak"}
# edit kind (ed.k printed by the action of the same name in the spec) -> category used in signatures
CATEGORY = {"script": "script", "clsscript": "script",
            "place": "placement", "clsplace": "placement", "fragtoggle": "placement", "inherit": "placement",
            "rootval": "var-value", "envval": "var-value", "envtoggle": "var-value", "clsenvval": "var-value",
            "depenv": "var-value", "provvar": "var-value", "toolenv": "var-value", "meta": "var-value",
            "sbenv": "var-value", "weakval": "var-value",
            "vartoggle": "var-list", "varmove": "var-list", "clsvartoggle": "var-list",
            "toolpath": "tool", "toollibs": "tool", "tooluse": "tool", "toolvariant": "tool",
            "depdel": "dependency", "depadd": "dependency", "depswap": "dependency", "depuse": "dependency",
            "depflag": "dependency", "pkgdepends": "dependency",
            "scmattr": "scm", "scmdel": "scm", "scmadd": "scm", "scmswap": "scm", "assert": "scm",
            "fingerprint": "fingerprint", "audit": "audit", "netaccess": "netaccess", "jobserver": "jobserver"}
C02_KINDS = sorted(set(CATEGORY) - {"weakval", "toolvariant"})


def require_kinds(cases, kinds, where):
    """vacuity control replacing `-coverage` (the cost instrumentation of TLC does not survive the recursive
    evaluation of this module): every edit action of the spec must have produced at least one printed state"""
    seen = {c["ed"]["k"] for c in cases if "ed" in c}
    missing = sorted(set(kinds) - seen)
    if missing:
        raise tlc.TlcError("vacuity: edit actions never taken %s %s" % (missing, where))


def nworkers():
    return max(1, int(os.environ.get("VF_WORKERS", "16") or 16))


def prefer_tmpfs():
    """Bob's parse caches (sqlite, pickles) sync every write: keep the thousands of scratch projects on tmpfs
    when there is one (unless the caller chose a place with VERIF_TMP)."""
    if not os.environ.get("VERIF_TMP") and os.path.isdir("/dev/shm") and os.access("/dev/shm", os.W_OK):
        os.environ["VERIF_TMP"] = "/dev/shm"


def import_bob():
    """import the tree under test now (before the long TLC run) and make sure it is the one named by VERIF_REPO:
    /venv can import bob from /repo as a fallback, which would silently test the wrong tree"""
    common.use_repo()
    import bob.input
    import bob.intermediate  # noqa: F401
    want = os.path.realpath(os.path.join(common.REPO, "pym"))
    got = os.path.realpath(os.path.dirname(os.path.dirname(bob.input.__file__)))
    if got != want:
        raise RuntimeError("bob imported from %s, expected %s" % (got, want))


def sha1hex(s):
    return hashlib.sha1(s.encode()).hexdigest()


# ---------------------------------------------------------------------------------------------
# abstract project (JSON of the TLA+ record) -> real recipes

def frag_text(f):
    return "echo %s\n" % f


def env_val(v):
    return "$(is-sandbox-enabled)" if v == "$SB" else v


def env_dict(e):
    return {k: env_val(v) for k, v in sorted(e.items()) if v != "-"}


def scm_yaml(s):
    ty = s["ty"]
    if ty == "git":
        d = {"scm": "git", "url": "https://git.test/%s.git" % s["url"], "dir": s["dir"]}
        if s["pin"]:
            d["commit"] = sha1hex(s["rev"])
        else:
            d["branch"] = s["rev"]
    elif ty == "url":
        d = {"scm": "url", "url": "https://dl.test/%s/pkg.tgz" % s["url"], "dir": s["dir"]}
        if s["pin"]:
            d["digestSHA1"] = sha1hex(s["rev"])
        elif s["rev"] != "-":
            d["fileName"] = s["rev"] + ".tgz"
    elif ty == "import":
        d = {"scm": "import", "url": "src/%s" % s["url"], "dir": s["dir"], "prune": True}
    elif ty == "svn":
        d = {"scm": "svn", "url": "https://svn.test/%s" % s["url"], "dir": s["dir"], "revision": int(s["rev"][1:])}
    elif ty == "cvs":
        d = {"scm": "cvs", "cvsroot": ":pserver:cvs.test:/%s" % s["url"], "module": "mod", "dir": s["dir"],
             "rev": s["rev"]}
    else:
        raise ValueError(ty)
    return d


def holder_yaml(h, is_recipe, name, perm=None):
    """One class or recipe record -> YAML document (dict). `perm` permutes the order of set-like lists and of the
    top-level keys (both are documented to be irrelevant)."""
    d = {}
    if is_recipe and name == "root":
        d["root"] = True
    if h["inh"]:
        d["inherit"] = list(h["inh"])
    env = env_dict(h["env"])
    if env:
        d["environment"] = env
    for k in "cbp":
        for pl in "SMF":
            f = h["fr"][k][pl]
            if f:
                d[LABEL[k] + PLACE[pl]] = frag_text(f)
    for l, key in VLNAME.items():
        if h["vl"][l]:
            d[key] = sorted(h["vl"][l])
    if is_recipe:
        deps = []
        for dep in h["deps"]:
            e = {"name": dep["name"], "use": sorted(dep["use"])}
            ov = env_dict(dep["env"])
            if ov:
                e["environment"] = ov
            if dep["codep"]:
                e["checkoutDep"] = True
            if dep["fwd"]:
                e["forward"] = True
            deps.append(e)
        if deps:
            d["depends"] = deps
        for l, key in TLNAME.items():
            if h["tl"][l]:
                d[key] = sorted(h["tl"][l])
        pv = env_dict(h["pvars"])
        if pv:
            d["provideVars"] = pv
        pt = {}
        for n, t in sorted(h["ptl"].items()):
            if t["def"]:
                e = {"path": t["path"]}
                if t["libs"]:
                    e["libs"] = list(t["libs"])
                te = env_dict(t["env"])
                if te:
                    e["environment"] = te
                pt[n] = e
        if pt:
            d["provideTools"] = pt
        if h["scm"]:
            d["checkoutSCM"] = [scm_yaml(s) for s in h["scm"]]
        if h["asr"]:
            d["checkoutAssert"] = [{"file": a[0], "digestSHA1": sha1hex(a[1])} for a in h["asr"]]
        if h["psb"]["def"]:
            sb = {"paths": ["/bin", "/usr/bin"]}
            se = env_dict(h["psb"]["env"])
            if se:
                sb["environment"] = se
            d["provideSandbox"] = sb
        if h["fp"]:
            d["fingerprintIf"] = True
            d["fingerprintScript"] = "echo fingerprint-of-%s\n" % name
        if h["pkgdep"]:
            d["packageDepends"] = True
        me = env_dict(h["meta"])
        if me:
            d["metaEnvironment"] = me
        if h["audit"]:
            d["buildAuditFiles"] = {"OUT": "out-%s.txt" % h["audit"]}
            d["packageAuditFiles"] = {"LIC": {"filename": "COPYING-%s" % h["audit"], "encoding": "latin1"}}
        if h["net"]:
            d["buildNetAccess"] = True
            d["packageNetAccess"] = True
        if h["js"]:
            d["jobServer"] = True
    if perm is not None:
        for key in list(VLNAME.values()) + list(TLNAME.values()):
            if key in d:
                perm.shuffle(d[key])
        for e in d.get("depends", []):
            perm.shuffle(e["use"])
        items = list(d.items())
        perm.shuffle(items)
        d = dict(items)
    return d


def reachable(proj):
    seen, todo = [], ["root"]
    while todo:
        n = todo.pop()
        if n in seen:
            continue
        seen.append(n)
        todo += [d["name"] for d in proj["rec"][n]["deps"]]
    return sorted(seen)


def render(proj, perm=None):
    """relpath -> text of the whole project"""
    import yaml
    files = {"config.yaml": projgen.CONFIG}
    renv = env_dict(proj["renv"])
    files["default.yaml"] = yaml.safe_dump({"environment": renv}, sort_keys=False, default_flow_style=False)
    for c in sorted(proj["cls"]):
        files["classes/%s.yaml" % c] = yaml.safe_dump(holder_yaml(proj["cls"][c], False, c, perm), sort_keys=False,
                                                      default_flow_style=False)
    for r in reachable(proj):
        files["recipes/%s.yaml" % r] = yaml.safe_dump(holder_yaml(proj["rec"][r], True, r, perm), sort_keys=False,
                                                      default_flow_style=False)
    return files


class Clock:
    """strictly increasing mtimes for harness edits (the parse cache assumes every modification changes the stat)"""

    def __init__(self):
        self.t = 1_600_000_000

    def tick(self):
        self.t += 7
        return self.t


def write_files(root, files, old=None, clock=None, order=None):
    """(re)write the files that differ from `old`; remove the ones that vanished"""
    names = list(files) if order is None else order
    for rel in names:
        if old is not None and old.get(rel) == files[rel]:
            continue
        p = os.path.join(root, rel)
        os.makedirs(os.path.dirname(p), exist_ok=True)
        with open(p, "w") as f:
            f.write(files[rel])
        if clock is not None:
            t = clock.tick()
            os.utime(p, (t, t))
    if old is not None:
        for rel in old:
            if rel not in files:
                os.unlink(os.path.join(root, rel))


def apply_edit(base, ed, hv):
    """neighbour project = base with the edited holder replaced (value printed by TLC)"""
    cur = dict(base)
    if ed["h"] == "rec":
        cur["rec"] = dict(base["rec"])
        cur["rec"][ed["t"]] = hv
    elif ed["h"] == "cls":
        cur["cls"] = dict(base["cls"])
        cur["cls"][ed["t"]] = hv
    elif ed["h"] == "renv":
        cur["renv"] = hv
    else:
        raise ValueError(ed)
    return cur


# ---------------------------------------------------------------------------------------------
# the real parser

def key_of(step):
    return "/".join(step.getPackage().getStack()) + ":" + step.getLabel()


def tkey(k):
    return "/".join(k[0]) + ":" + k[1]


def collect(projdir, sandbox=False, build_ids=False):
    """Parse the project in `projdir` with the real parser; key -> observation of every valid step."""
    from bob.input import RecipeSet
    cwd = os.getcwd()
    os.chdir(projdir)
    try:
        rs = RecipeSet()
        rs.parse()
        ps = rs.generatePackages(lambda s, m: "unused", sandbox)
        out = {}
        roots = [d.getPackage() for d in ps.getRootPackage().getDirectDepSteps()]

        def walk(pkg):
            for st in (pkg.getCheckoutStep(), pkg.getBuildStep(), pkg.getPackageStep()):
                if not st.isValid():
                    continue
                k = key_of(st)
                tools = {n: [key_of(t.getStep()), t.getPath(), list(t.getLibs())] for n, t in st.getTools().items()}
                rec = {"vid": st.getVariantId().hex(), "script": st.getScript(), "env": dict(st.getEnv()),
                       "tools": tools, "args": [key_of(a) for a in st.getArguments() if a.isValid()],
                       "sandbox": st.getSandbox() is not None}
                if k in out and out[k]["vid"] != rec["vid"]:
                    raise RuntimeError("two different steps under key " + k)
                out[k] = rec
            for d in pkg.getDirectDepSteps():
                walk(d.getPackage())

        for r in roots:
            walk(r)
        if build_ids:
            bids = compute_build_ids(roots)
            for k, b in bids.items():
                if k in out:
                    out[k]["bid"] = b
        return out
    finally:
        os.chdir(cwd)


def compute_build_ids(roots):
    """Build-Id of every valid step: the call the builder makes (builder.py __getBuildIdSingle), fed with supplied
    source hashes (checkout steps) and supplied fingerprints instead of executing anything."""
    import asyncio
    from bob.cmds.build.build import ExecutableStep, LazyIR
    from bob.utils import getPlatformTag
    memo = {}

    def irkey(s):
        return "/".join(s.getPackage().getStack()) + ":" + s.getLabel()

    def fingerprint(s):
        if not s._isFingerprinted() and not (s.isPackageStep() and not s.isRelocatable()):
            return b''
        f = b"fingerprint:" + s._getFingerprintScript().encode("utf8")
        if s.getSandbox() is not None:
            f += b":executed-in-sandbox"
        return hashlib.sha1(f).digest()

    async def one(s):
        k = irkey(s)
        if k in memo:
            return memo[k]
        if s.isCheckoutStep():
            r = hashlib.sha1(b"supplied-source-hash:" + k.encode()).digest()
        else:
            r = await s.getDigestCoro(calc, fingerprint=fingerprint(s), platform=getPlatformTag(), relaxTools=True)
        memo[k] = r
        return r

    async def calc(steps):
        return [await one(s) for s in steps]

    async def walk(pkg, seen):
        for st in (pkg.getCheckoutStep(), pkg.getBuildStep(), pkg.getPackageStep()):
            if st.isValid():
                await one(ExecutableStep.fromStep(st, LazyIR))
        for d in pkg.getDirectDepSteps():
            await walk(d.getPackage(), seen)

    async def main():
        for r in roots:
            await walk(r, set())

    loop = asyncio.new_event_loop()
    try:
        loop.run_until_complete(main())
    finally:
        loop.close()
    return {k: v.hex() for k, v in memo.items()}


# ---------------------------------------------------------------------------------------------
# spec tuples

def classes_of(flats):
    """flats: key -> flat tuple (references by key). Returns key -> (class id, shallow tuple).
    class id = canonical hash of the execution tuple with the referenced steps replaced by their classes:
    equal iff the nested Exec tuples of the spec are equal."""
    out = {}

    def cls(k):
        if k in out:
            return out[k][0]
        f = flats[k]
        shallow = {"kind": f["kind"], "frags": list(f["frags"]),
                   "vars": {v: x for v, x in sorted(f["vars"].items()) if x != "-"},
                   "tools": [[cls(tkey(t[1])), t[2], list(t[3])] for t in f["tools"]],
                   "args": [cls(tkey(a)) for a in f["args"]],
                   "scm": [list(s) for s in f["scm"]], "asr": [list(a) for a in f["asr"]]}
        c = hashlib.sha1(json.dumps(shallow, sort_keys=True).encode()).hexdigest()[:20]
        out[k] = (c, shallow)
        return c

    for k in flats:
        cls(k)
    return out


def diff_component(a, b):
    """name of the first component in which two shallow execution tuples differ"""
    if a["kind"] != b["kind"]:
        return "kind"
    if a["frags"] != b["frags"]:
        return "frags-order" if sorted(a["frags"]) == sorted(b["frags"]) else "frags"
    if a["vars"] != b["vars"]:
        return "var-values" if sorted(a["vars"]) == sorted(b["vars"]) else "var-set"
    if a["tools"] != b["tools"]:
        if len(a["tools"]) != len(b["tools"]):
            return "tool-set"
        for x, y in zip(a["tools"], b["tools"]):
            if x[0] != y[0]:
                return "tool-provider"
            if x[1] != y[1]:
                return "tool-path"
            if x[2] != y[2]:
                return "tool-libs"
    if a["args"] != b["args"]:
        return "args-order" if sorted(a["args"]) == sorted(b["args"]) else "args"
    if a["scm"] != b["scm"]:
        return "scm-order" if sorted(a["scm"]) == sorted(b["scm"]) else "scm"
    if a["asr"] != b["asr"]:
        return "asserts"
    return "none"


def propagated(a, b, vid_of):
    """a collision of two tuples that differ only in inputs which collide themselves is a consequence, not a cause"""
    if diff_component(dict(a, args=[], tools=[]), dict(b, args=[], tools=[])) != "none":
        return False
    if len(a["args"]) != len(b["args"]) or len(a["tools"]) != len(b["tools"]):
        return False
    for x, y in zip(a["args"], b["args"]):
        if x != y and (vid_of(x) is None or vid_of(x) != vid_of(y)):
            return False
    for x, y in zip(a["tools"], b["tools"]):
        if x[1:] != y[1:]:
            return False
        if x[0] != y[0] and (vid_of(x[0]) is None or vid_of(x[0]) != vid_of(y[0])):
            return False
    return True


def partition(labels):
    """canonical form of a partition given as list of labels: index of first occurrence"""
    first = {}
    return [first.setdefault(l, i) for i, l in enumerate(labels)]


def project_real(flat, real):
    """compare the real step with the spec tuple component-wise; returns list of drift descriptions"""
    drift = []
    pieces = real["script"].split(GLUE) if real["script"] else []
    texts = []
    for p in pieces:
        lines = p.split("\n")
        if lines and lines[0].startswith("_BOB_SOURCES["):
            lines = lines[1:]
        texts.append("\n".join(lines))
    want = [frag_text(f) for f in flat["frags"]]
    if texts != want:
        drift.append("executed fragments %r, spec %r" % (texts, want))
    for v, x in flat["vars"].items():
        if x != "-" and real["env"].get(v) != x:
            drift.append("strong variable %s=%r, spec %r" % (v, real["env"].get(v), x))
    rt = [[n] + real["tools"][n] for n in sorted(real["tools"])]
    st = [[t[0], tkey(t[1]), t[2], list(t[3])] for t in flat["tools"]]
    if rt != st:
        drift.append("tools %r, spec %r" % (rt, st))
    sa = [tkey(a) for a in flat["args"]]
    if real["args"] != sa:
        drift.append("arguments %r, spec %r" % (real["args"], sa))
    return drift


# ---------------------------------------------------------------------------------------------
# replay of one base project with a chunk of its edits (one worker, one project directory)

def replay_chunk(arg):
    base_case, nbs, keep = arg
    common.use_repo()
    work = common.scratch("c02-")
    res = {"id": base_case["id"], "violations": [], "drift": [], "cases": [], "parses": 0, "propagated": 0}
    try:
        base = base_case["proj"]
        clock = Clock()
        files0 = render(base)
        write_files(work, files0, None, clock)
        real0 = collect(work)
        res["parses"] += 1
        flats0 = {tkey(k): f for k, f in base_case["steps"]}
        if sorted(flats0) != sorted(real0):
            res["drift"].append("base %s: valid steps %s, spec %s" % (base_case["id"], sorted(real0), sorted(flats0)))
            return res
        cls0 = classes_of(flats0)
        for k in flats0:
            for d in project_real(flats0[k], real0[k]):
                res["drift"].append("base %s %s: %s" % (base_case["id"], k, d))
        res["base"] = {k: (cls0[k][0], cls0[k][1], real0[k]["vid"]) for k in flats0}
        cur_files = files0
        for nb in nbs:
            ed = nb["ed"]
            cur = apply_edit(base, ed, nb["hv"])
            files1 = render(cur)
            write_files(work, files1, cur_files, clock)
            cur_files = files1
            try:
                real1 = collect(work)
            except Exception as e:  # the spec says the neighbour is well-formed
                res["drift"].append("edit %s on %s: parser rejects the neighbour: %s" % (json.dumps(ed), base_case["id"], e))
                write_files(work, files0, cur_files, clock)
                cur_files = files0
                continue
            res["parses"] += 1
            keys1 = [tkey(k) for k in nb["keys"]]
            flats1 = {k: flats0[k] for k in keys1 if k in flats0}
            flats1.update({tkey(k): f for k, f in nb["chg"]})
            case = {"ed": ed, "steps": {}, "ok": True}
            if sorted(keys1) != sorted(real1):
                res["drift"].append("edit %s on %s: valid steps %s, spec %s" % (json.dumps(ed), base_case["id"],
                                                                              sorted(real1), sorted(keys1)))
                case["ok"] = False
            else:
                cls1 = classes_of(flats1)
                # machinery self check: the driver's classes induce TLC's partition of base U neighbour
                k0 = [tkey(k) for k, _ in base_case["steps"]]
                mine = partition([cls0[k][0] for k in k0] + [cls1[k][0] for k in keys1])
                theirs = partition(nb["cls"])
                if mine != theirs:
                    raise RuntimeError("class reconstruction disagrees with TLC's partition for %s on %s" % (ed, base_case["id"]))
                for k in keys1:
                    for d in project_real(flats1[k], real1[k]):
                        res["drift"].append("edit %s on %s, %s: %s" % (json.dumps(ed), base_case["id"], k, d))
                # P: ids equal <=> Exec equal, over all pairs of base U neighbour
                by_cls, by_vid = {}, {}
                allsteps = [("base", k, cls0[k], real0[k]["vid"]) for k in k0] + \
                           [("nb", k, cls1[k], real1[k]["vid"]) for k in keys1]
                cat = ed["k"]
                vid_of = {c: vid for _, _, (c, _), vid in allsteps}.get
                for side, k, (c, sh), vid in allsteps:
                    o = by_cls.setdefault(c, (side, k, vid))
                    if o[2] != vid:
                        res["violations"].append(("spurious:%s" % cat,
                                                  {"what": "equal execution tuples, different Variant-Ids",
                                                   "base": base_case["id"], "edit": ed, "a": o, "b": (side, k, vid), "tuple": sh}))
                    o = by_vid.setdefault(vid, (side, k, c, sh))
                    if o[2] != c and propagated(o[3], sh, vid_of):
                        res["propagated"] += 1
                    elif o[2] != c:
                        res["violations"].append(("collision:%s:%s" % (cat, diff_component(o[3], sh)),
                                                  {"what": "different execution tuples, equal Variant-Id", "vid": vid,
                                                   "base": base_case["id"], "edit": ed,
                                                   "a": o[:2], "tuple_a": o[3], "b": (side, k), "tuple_b": sh}))
                changed = sorted(k for k in keys1 if k not in cls0 or cls0[k][0] != cls1[k][0])
                case["changed"] = len(changed)
                case["steps"] = {k: (cls1[k][0], cls1[k][1], real1[k]["vid"]) for k in changed}
                case["same"] = len(keys1) - len(changed)
                case["vanished"] = len(set(k0) - set(keys1))
            # revert in place (parse caches of the neighbour are still there)
            write_files(work, files0, cur_files, clock)
            cur_files = files0
            real2 = collect(work)
            res["parses"] += 1
            if {k: v["vid"] for k, v in real2.items()} != {k: v["vid"] for k, v in real0.items()}:
                bad = sorted(k for k in set(real0) | set(real2) if real0.get(k, {}).get("vid") != real2.get(k, {}).get("vid"))
                res["violations"].append(("revert:%s" % ed["k"],
                                          {"what": "reverting the edit does not restore the ids", "base": base_case["id"],
                                           "edit": ed, "steps": bad}))
            res["cases"].append(case)
    finally:
        if not keep:
            shutil.rmtree(work, ignore_errors=True)
    return res


def run_tlc_checks(rep, mode_cfg, reach, kinds):
    """(A): exhaustive run (prints the cases) + vacuity configs"""
    res = tlc.run("VariantId", mode_cfg, workers=nworkers(), timeout=20000, heap="8g")
    rep.add_tlc(res, mode_cfg)
    if res.violated:
        rep.violation("model:" + res.violated, {"cex": res.cex[-2:]})
    require_kinds(res.printed, kinds, mode_cfg)
    for inv in reach:
        r2 = tlc.run("VariantId", "VariantId_reach_%s.cfg" % inv, workers=min(4, nworkers()), timeout=6000)
        if r2.violated != inv:
            raise tlc.TlcError("vacuity: %s not reachable" % inv)
        rep.add_tlc(r2, "reach " + inv)
    if len(res.printed) != res.distinct:
        raise tlc.TlcError("printed %d cases for %d distinct states" % (len(res.printed), res.distinct))
    return res


def main():
    a = common.args(PROP)
    if a.replay:
        with open(a.replay) as f:
            a.tier = json.load(f).get("tier", a.tier)     # the catalogue the finding came from
    import_bob()
    rep = evidence.Report(PROP, a.tier, a.seed)
    rep.rule = ("cases = (base project, single edit) states printed by TLC, each replayed as base + neighbour + revert "
                "through the real parser; evaluations = real parser runs; non-trivial = distinct (edit kind, effect) "
                "pairs where effect is one of: some tuple changed / no tuple changed / steps appeared or vanished; "
                "all Variant-Ids of the run are additionally bucketed against the spec's tuple classes")
    rep.assumptions = ["SHA-1 is collision free on the generated inputs",
                       "fragment texts, variable values, paths are drawn from small alphabets without shell/yaml/"
                       "substitution meta characters; SCM urls of different SCM types do not alias",
                       "svn/cvs/git/url SCMs are exercised through their symbolic description only (nothing is fetched)",
                       "tool names are not part of the tuple (pinned by test_input_step: 'tool name has no influence')"]
    quick = a.tier == "quick"
    res = run_tlc_checks(rep, "VariantId.cfg" if quick else "VariantId_thorough.cfg",
                         ["ReachNoChangeEdit", "ReachOrderOnly", "ReachDownstream", "ReachTwoVariants"], C02_KINDS)
    if sum(1 for c in res.printed if c["t"] == "nb") != sum(1 for c in res.printed if c["t"] == "rev"):
        raise tlc.TlcError("Revert not taken from every neighbour")
    bases = {json.dumps(c["id"]): c for c in res.printed if c["t"] == "base"}
    nbs = {}
    for c in res.printed:
        if c["t"] == "nb":
            nbs.setdefault(json.dumps(c["id"]), []).append(c)
    if not bases or not nbs:
        raise tlc.TlcError("no cases generated")
    if a.replay:
        return replay_file(a.replay, rep, bases, nbs)
    common.use_repo()
    prefer_tmpfs()
    import bob.input  # noqa: F401  (import before fork)
    import yaml  # noqa: F401
    tasks = []
    chunk = 40 if quick else 80
    for bid in sorted(bases):
        l = sorted(nbs.get(bid, []), key=lambda c: json.dumps(c["ed"], sort_keys=True))
        for i in range(0, len(l), chunk):
            tasks.append((bases[bid], l[i:i + chunk], a.keep))
    glob_cls, glob_vid = {}, {}     # class -> (vid, origin) ; vid -> (class, shallow, origin)
    seen_sig = {}
    kinds_changed, kinds_same = set(), set()
    drift_seen = set()

    def violation(sig, detail):
        seen_sig[sig] = seen_sig.get(sig, 0) + 1
        if seen_sig[sig] == 1:
            rep.violation(sig, detail)

    def bucket(entries):
        """entries: (origin, key, class, shallow tuple, vid). Two passes, so that the ids of all inputs are known
        when a collision is classified as propagated."""
        for origin, k, c, sh, vid in entries:
            o = glob_cls.setdefault(c, (vid, origin, k))
            if o[0] != vid:
                violation("spurious:global", {"what": "equal execution tuples in two cases, different Variant-Ids",
                                              "a": o, "b": (vid, origin, k), "tuple": sh})
        for origin, k, c, sh, vid in entries:
            o = glob_vid.setdefault(vid, (c, sh, origin, k))
            if o[0] != c and propagated(o[1], sh, lambda x: glob_cls.get(x, (None,))[0]):
                rep.extra["propagated_collisions"] = rep.extra.get("propagated_collisions", 0) + 1
            elif o[0] != c:
                violation("collision:global:%s" % diff_component(o[1], sh),
                          {"what": "different execution tuples in two cases, equal Variant-Id", "vid": vid,
                           "a": o[2:], "tuple_a": o[1], "b": (origin, k), "tuple_b": sh})

    with mp.get_context("fork").Pool(nworkers()) as pool:
        for r in pool.imap(replay_chunk, tasks, chunksize=1):   # ordered: deterministic bucket attribution
            rep.evaluations += r["parses"]
            rep.extra["propagated_collisions"] = rep.extra.get("propagated_collisions", 0) + r["propagated"]
            for d in r["drift"]:
                kind = d.split(":")[0][:60]
                if d not in drift_seen and len(drift_seen) < 200:
                    drift_seen.add(d)
                    rep.model_drift(d)
            for sig, detail in r["violations"]:
                violation(sig, detail)
            bucket([(("base", r["id"]), k, c, sh, vid) for k, (c, sh, vid) in r.get("base", {}).items()])
            for case in r["cases"]:
                rep.traces += 1
                ed = case["ed"]
                if not case["ok"]:
                    continue
                eff = "changed" if case["changed"] else ("vanished" if case["vanished"] else "same")
                rep.nontriv("%s:%s" % (ed["k"], eff))
                (kinds_changed if case["changed"] or case["vanished"] else kinds_same).add(ed["k"])
                bucket([((r["id"], ed), k, c, sh, vid) for k, (c, sh, vid) in case["steps"].items()])
                if case["changed"]:
                    rep.sample({"base": r["id"], "edit": ed, "tuples_changed": case["changed"],
                                "tuples_unchanged": case["same"]})
    per_kind = {}
    for l in nbs.values():
        for c in l:
            per_kind[c["ed"]["k"]] = per_kind.get(c["ed"]["k"], 0) + 1
    rep.extra["cases_per_edit_kind"] = per_kind
    rep.extra["exec_classes"] = len(glob_cls)
    rep.extra["distinct_variant_ids"] = len(glob_vid)
    rep.extra["edit_kinds_with_changed_tuples"] = sorted(kinds_changed)
    rep.extra["edit_kinds_with_unchanged_tuples"] = sorted(kinds_same)
    rep.extra["violation_signatures"] = seen_sig
    rep.extra["base_projects"] = len(bases)
    # vacuity on the implementation side: every edit kind of the catalogue must have changed some tuple at least once,
    # except the ones that are id-irrelevant by the property
    expected_change = {c["ed"]["k"] for l in nbs.values() for c in l} - {"audit", "netaccess", "jobserver", "fingerprint",
                                                                         "sbenv"}
    missing = sorted(expected_change - kinds_changed)
    if missing and not rep.drift:
        raise tlc.TlcError("vacuity: edit kinds that never changed any tuple: %s" % missing)
    if len(glob_cls) != len(glob_vid) and not seen_sig:
        raise RuntimeError("bucket count mismatch without a reported violation")
    if rep.drift:
        rep.level = "exploration"
    return rep.finish()


def replay_file(path, rep, bases, nbs):
    """--replay: re-run the (base, edit) pair named in a violation file"""
    with open(path) as f:
        v = json.load(f)
    d = v["detail"]
    common.use_repo()
    bid = json.dumps(d.get("base"))
    if bid not in bases or "edit" not in d:
        print("replay file names no single case (global bucket finding); re-run the check")
        return 2
    l = [c for c in nbs.get(bid, []) if c["ed"] == d["edit"]]
    r = replay_chunk((bases[bid], l, True))
    for sig, detail in r["violations"]:
        rep.violation(sig, detail)
    rep.traces += len(r["cases"])
    rep.evaluations += r["parses"]
    return rep.finish()


if __name__ == "__main__":
    evidence.main_wrapper(main)
