"""C15: installSharedPackage that loses the race (quick check share.py:252 or ENOTEMPTY share.py:299) returns
(path, False) WITHOUT recording the caller in pkg.json "users". The builder links the workspace to the package
(builder.py 1736-1750). From then on every unforced gc (other project's `bob clean --shared --all-unused`, or the
automatic gc when the quota is exceeded) regards the package as unused although a workspace links to it.
Unlike S2 there is no timing window: the project stays unregistered until its next bob run.
Exit status 1 = defect present.   Run: /venv/bin/python checks/repro_c15_lost_race_unregistered.py"""
import os, sys, tempfile, shutil, json
sys.path.insert(0, os.path.join(os.environ.get("VERIF_REPO", "/repo"), "pym"))
from bob.share import LocalShare
from bob.utils import hashDirectory

root = tempfile.mkdtemp(prefix="repro-c15-")
BID = b"\x11" * 20


def project(name):
    d = os.path.join(root, name, "dev", "dist", "pkg", "1")
    ws = os.path.join(d, "workspace")
    os.makedirs(ws)
    with open(os.path.join(ws, "result.txt"), "w") as f:
        f.write("content")
    with open(os.path.join(d, "audit.json.gz"), "w") as f:
        f.write(name)
    return ws


try:
    store = os.path.join(root, "store")
    wsZ = project("Z")
    LocalShare({"path": store}).installSharedPackage(wsZ, BID, hashDirectory(wsZ), True)   # the faster project ...
    shutil.rmtree(os.path.join(root, "Z"))                                                  # ... was deleted later
    wsA = project("A")                                                                     # A built the same package
    path, installed = LocalShare({"path": store}).installSharedPackage(wsA, BID, hashDirectory(wsA), True)
    print("install by A ->", installed, "(lost the race)")
    shutil.rmtree(wsA)
    os.symlink(os.path.join(path, "workspace"), wsA)                                       # builder.py 1740-1744
    users = json.load(open(os.path.join(path, "pkg.json")))["users"]
    print("A registered in pkg.json:", wsA in users)
    r = LocalShare({"path": store}).gc(False, True)                                        # any other project
    print("gc(False, True) ->", r)
    if not os.path.exists(wsA):
        print("DEFECT: package collected while the workspace of A links to it:", os.readlink(wsA))
        sys.exit(1)
    sys.exit(0)
finally:
    shutil.rmtree(root, ignore_errors=True)
