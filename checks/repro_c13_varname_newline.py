"""Stand-alone reproduction of the C13 finding `name:trailing-newline:accepted-but-not-exported`.

The recipe schema validates variable names with  ^[A-Za-z_][A-Za-z0-9_]*$  (pym/bob/input.py:1876 VAR_NAME,
:4157 varNameUseSchema).  `$` also matches before a trailing newline, so the name "NLVAR\n" is accepted in
`environment:` and in `buildVars:`.  BashLanguage.__formatProlog (pym/bob/languages.py:304) then writes

    export NLVAR
    ='secret value'

into the step script.  The prolog runs before the error trap is installed: the step "succeeds", the declared
variable is not set, and the line `='secret value'` is executed as a command.

Run:  /venv/bin/python -m checks.repro_c13_varname_newline        (exit 1 = defect present, 0 = absent)
"""
import os
import shutil
import sys

from vf import common, bobrun, projgen


def main():
    base = common.scratch("vf-c13-repro-")
    root = os.path.join(base, "proj")
    os.makedirs(os.path.join(root, "recipes"))
    with open(os.path.join(root, "config.yaml"), "w") as f:
        f.write(projgen.CONFIG)
    with open(os.path.join(root, "recipes", "app.yaml"), "w") as f:
        f.write('root: true\n'
                'environment:\n'
                '  "NLVAR\\n": "secret value"\n'
                '  "PLAIN": "p"\n'
                'buildVars: ["NLVAR\\n", "PLAIN"]\n'
                'buildScript: |\n'
                '  env -0 > env.bin\n'
                'packageScript: |\n'
                '  true\n')
    r = bobrun.run_bob(root, ["dev", "app"], record=False, timeout=3000)
    print("bob exit status:", r.rc)
    print(r.out[-800:])
    try:
        if r.rc != 0:
            print("RESULT: the project was rejected or the step failed loudly -> defect absent")
            return 0
        with open(os.path.join(root, "dev", "build", "app", "1", "workspace", "env.bin"), "rb") as f:
            names = [x.partition(b"=")[0] for x in f.read().split(b"\0") if x]
        with open(os.path.join(root, "dev", "build", "app", "1", "script")) as f:
            lines = [l for l in f.read().splitlines() if "NLVAR" in l or l.startswith("='")]
        print("generated prolog lines:", lines)
        print("variables seen by the build step:", sorted(n.decode() for n in names))
        if b"NLVAR\n" in names:
            print("RESULT: exported faithfully -> defect absent")
            return 0
        print("RESULT: name accepted, step succeeded, declared variable NOT visible, stray command executed -> DEFECT")
        return 1
    finally:
        shutil.rmtree(base, ignore_errors=True)


if __name__ == "__main__":
    sys.exit(main())
