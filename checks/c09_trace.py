"""C09 use (C): recorder, projection and TLC validation of traces of REAL processes racing on one build-id.

Recorder (runs only inside processes the harness forks): vf.fsint is installed on bob.archive's namespace (os, open,
NamedTemporaryFile rebound there, nothing else) and its before/after hook writes one ndjson record per wrapped
file-system operation that touches one of the two archive directories:
    {"p": process, "seq": per-process number, "t": global ticket, "ph": "call" | "ret" | "ev", "op": model action, ...}
"call" is written before the operation is issued, "ret" right after it returned (with what it returned: won/lost of
link(), present/absent of isfile(), inode + size found by open(), inode of the created temp file, bytes written so far).
The global ticket comes from a counter file under its own flock, taken at both points; the trace is the ticket order and
the operation's effect lies somewhere between its two tickets (TraceArchivePublish.tla makes it an internal step).
Wall-clock time is never used for ordering.

project() turns the raw records of one round into the spec-level trace: inode numbers become the name of the process that
created them, writes between the first and the completing one (cumulated bytes = full size: the solo reference upload
for uploaders, st_size of the opened source for mirrors) are stuttering steps and are dropped, unmodelled probes
(isdir/makedirs) are dropped.
"""
import fcntl
import json
import os
import time

from vf import common, tlc, fsint

FAULTABLE = ["MkTemp", "Write", "Close", "Chmod", "Link", "Replace", "Unlink"]
KILLABLE = ["Exists"] + FAULTABLE
AT = {"Exists": "exists", "MkTemp": "mktemp", "Write": "write", "Close": "close", "Chmod": "chmod", "Link": "link",
      "Replace": "replace", "Unlink": "unlink"}
FIELDS = {"n": 1, "a": "-", "k": "-", "res": "?", "saw": "-", "at": "-"}


class Ticket:
    """global sequence numbers: a counter file under its own flock (one descriptor per process, opened after fork)"""

    def __init__(self, path):
        self.fd = os.open(path, os.O_RDWR)

    @staticmethod
    def create(path):
        with open(path, "wb") as f:
            f.write(b"0")

    def take(self):
        fcntl.flock(self.fd, fcntl.LOCK_EX)
        try:
            n = int(os.pread(self.fd, 32, 0) or b"0")
            os.pwrite(self.fd, b"%d" % (n + 1), 0)
        finally:
            fcntl.flock(self.fd, fcntl.LOCK_UN)
        return n


class Recorder:
    def __init__(self, proc, role, work, roots, names, plan=None, jitter=None, rendezvous=None):
        """names: artifact path -> (archive, kind); plan: (mode, model op, nth) with mode kill|fault;
        jitter: random.Random or None (schedule perturbation only); rendezvous: (model op, barrier) or None"""
        self.proc, self.role = proc, role
        self.roots = {a: os.path.join(r, "") for a, r in roots.items()}
        self.names = names
        self.plan, self.jitter, self.rendezvous = plan, jitter, rendezvous
        self.ticket = Ticket(os.path.join(work, "ticket"))
        self.fd = os.open(os.path.join(work, "ev", "%s-%d.ndjson" % (proc, os.getpid())), os.O_WRONLY | os.O_CREAT | os.O_APPEND, 0o644)
        self.seq = 0
        self.count = {}
        self.cum = {}
        self.fired = False
        self.pending = {}           # id(op) -> seq of its call record
        self.rread = None           # seq of the reader's RRead call in flight
        self.found = None           # did the last open of an artifact name find something
        self.ip = fsint.Interposer(record_reads=True)
        self.ip.hook = self.hook

    def install(self, module):
        self.ip.install(module, extra={"NamedTemporaryFile": self.ip.tempfile.NamedTemporaryFile,
                                       "mkstemp": self.ip.tempfile.mkstemp, "TemporaryFile": self.ip.tempfile.TemporaryFile})

    # -- log ---------------------------------------------------------------------------------
    def log(self, ph, op, seq=None, **kw):
        if seq is None:
            self.seq += 1
            seq = self.seq
        rec = dict(p=self.proc, seq=seq, t=self.ticket.take(), ph=ph, op=op, **kw)
        os.write(self.fd, (json.dumps(rec) + "\n").encode())      # unbuffered: survives os._exit
        return seq

    def pair_begin(self, op, **kw):
        return self.log("call", op, **kw)

    def pair_end(self, op, seq, **kw):
        self.log("ret", op, seq=seq, **kw)

    def note(self, **kw):
        """harness-side outcome of the process (not an event of the trace)"""
        os.write(self.fd, (json.dumps(dict(p=self.proc, ph="note", **kw)) + "\n").encode())

    # -- classification ------------------------------------------------------------------------
    def where(self, path):
        if not isinstance(path, str):
            return None
        if path in self.names:
            return self.names[path]
        for a, r in self.roots.items():
            if path.startswith(r) or path + os.sep == r:
                return (a, "tmp")
        return None

    def classify(self, op):
        """-> (model op | None (= unmodelled probe, not logged), archive, kind) or None (outside the archives)"""
        ps = [x for x in op.args if isinstance(x, str)]
        if not ps:
            return None
        w = [self.where(p) for p in ps]
        if all(x is None for x in w):
            return None
        n = op.name
        first, last = w[0], w[-1]
        if n == "path.isfile" and first and first[1] != "tmp":
            return ("Exists",) + first
        if n in ("path.isdir", "path.exists", "path.lexists", "makedirs", "mkdir", "stat", "lstat", "listdir", "scandir"):
            return (None, None, None)
        if n in ("NamedTemporaryFile", "mkstemp", "TemporaryFile"):
            return ("MkTemp", first[0], "tmp")
        if n == "write" and first and first[1] == "tmp":
            return ("Write", first[0], "tmp")
        if n == "close" and first and first[1] == "tmp":
            return ("Close", first[0], "tmp")
        if n == "chmod" and first and first[1] == "tmp":
            return ("Chmod", first[0], "tmp")
        if n == "link" and len(w) == 2 and first and first[1] == "tmp" and last and last[1] != "tmp":
            return ("Link",) + last
        if n in ("replace", "rename") and len(w) == 2 and first and first[1] == "tmp" and last and last[1] != "tmp":
            return ("Replace",) + last
        if n in ("unlink", "remove") and first and first[1] == "tmp":
            return ("Unlink", first[0], "tmp")
        if n == "open.r" and first and first[1] != "tmp":
            return ("MOpen" if self.role == "mirror" else "ROpen",) + first
        x = first or last
        return ("Other:" + n, x[0], x[1])

    # -- fsint hook ----------------------------------------------------------------------------
    def hook(self, phase, op):
        c = self.classify(op)
        if c is None or c[0] is None:
            return
        mop, a, k = c
        if phase == "before":
            nth = self.count.get(mop, 0)
            self.count[mop] = nth + 1
            if self.plan and not self.fired and self.plan[1] == mop and (mop != "Write" or self.plan[2] == nth):
                self.fired = True
                if self.plan[0] == "kill":
                    self.log("ev", "Crash", at=AT[mop])
                    os._exit(137)
                self.log("ev", "Fault", at=AT[mop])
                raise OSError(28, "injected")
            if self.jitter is not None and self.jitter.random() < 0.25:
                time.sleep(self.jitter.random() * 0.002)
            if self.rendezvous and self.rendezvous[0] == mop:
                try:
                    self.rendezvous[1].wait(1.5)
                except Exception:
                    pass
                self.rendezvous = None
            self.pending[id(op)] = self.pair_begin(mop, a=a, k=k)
            return
        seq = self.pending.pop(id(op), None)
        if seq is None:
            return
        kw = {"a": a, "k": k}
        if op.exc is not None:
            kw["exc"] = type(op.exc).__name__
        if mop == "Exists":
            kw["res"] = "present" if op.res else "absent"
        elif mop == "MkTemp" and op.exc is None:
            kw["ino"] = os.fstat(op.res.fileno()).st_ino
            kw["tmp"] = os.path.basename(op.res.name)
        elif mop == "Write":
            path = op.args[0]
            if op.exc is None:
                self.cum[path] = self.cum.get(path, 0) + (op.res if isinstance(op.res, int) else op.args[1])
            kw["cum"] = self.cum.get(path, 0)
        elif mop == "Link":
            kw["res"] = "won" if op.exc is None else ("lost" if isinstance(op.exc, FileExistsError) else "err")
        elif mop in ("MOpen", "ROpen"):
            if op.exc is None:
                st = os.fstat(op.res.fileno())
                kw["ino"], kw["size"] = st.st_ino, st.st_size
            else:
                kw["ino"] = 0
            self.found = op.exc is None
        self.pair_end(mop, seq, **kw)
        if mop == "ROpen" and op.exc is None:
            # the read of what was opened happens between here and the return of the download
            self.rread = self.pair_begin("RRead")


# ------------------------------------------------------------------------------------------------
# raw records of one round -> spec-level trace

class TraceError(Exception):
    """the recorded data is not a well-formed log (machinery failure)"""


def load_round(evdir):
    recs, notes = [], []
    for fn in sorted(os.listdir(evdir)):
        with open(os.path.join(evdir, fn)) as f:
            for line in f:
                r = json.loads(line)
                (notes if r["ph"] == "note" else recs).append(r)
    recs.sort(key=lambda r: r["t"])
    ts = [r["t"] for r in recs]
    if len(set(ts)) != len(ts):
        raise TraceError("duplicate tickets")
    last = {}
    for r in recs:
        # per-process program order must agree with the ticket order
        key = (r["seq"], 0 if r["ph"] == "call" else 1)
        if r["p"] in last and not last[r["p"]] < key and r["ph"] != "ev":
            raise TraceError("ticket order contradicts the program order of %s: %r" % (r["p"], r))
        if r["ph"] != "ev":
            last[r["p"]] = key
    return recs, notes


def project(recs, full, role):
    """recs: ticket-ordered raw records; full: {uploader: full size}; role: {proc: role}.
    -> (events, nf, nc, info) with events in the format of TraceArchivePublish.tla"""
    rets = {(r["p"], r["seq"]): r for r in recs if r["ph"] == "ret"}
    # inode -> creators (ticket of creation), successful publishes per name
    created, published = {}, {}
    for r in recs:
        if r["ph"] == "ret" and r["op"] == "MkTemp" and "ino" in r:
            created.setdefault(r["ino"], []).append((r["t"], r["p"]))
        if r["ph"] == "ret" and ((r["op"] == "Link" and r.get("res") == "won") or (r["op"] == "Replace" and "exc" not in r)):
            published.setdefault((r["a"], r["k"]), set()).add(r["p"])

    def creator(ino, name, before):
        c = [(t, p) for t, p in created.get(ino, []) if t < before and p in published.get(name, ())]
        if not c:
            return "?"
        return max(c)[1]

    # what each opener saw; full size of each mirror
    saw, fullm = {}, dict(full)
    for r in recs:
        if r["ph"] == "ret" and r["op"] in ("MOpen", "ROpen"):
            s = "-" if not r.get("ino") else creator(r["ino"], (r["a"], r["k"]), r["t"])
            saw[(r["p"], r["seq"])] = s
            if r["op"] == "MOpen" and r.get("ino"):
                fullm[r["p"]] = r["size"]
    # writes: which are model steps
    wn, total, faulted = {}, {}, set()
    first = {}
    for r in recs:
        if r["ph"] == "ev":
            faulted.add(r["p"])
        if r["ph"] == "ret" and r["op"] == "Write":
            p = r["p"]
            total[p] = r["cum"]
            n = 0
            if p not in first and "exc" not in r and r["cum"] > 0:
                first[p] = r["seq"]
                n += 1
            if "exc" not in r and r["cum"] == fullm.get(p) and ("done", p) not in first:
                first[("done", p)] = r["seq"]
                n += 1
            wn[(p, r["seq"])] = n
    events, nf, nc = [], 0, 0
    info = {"lost": 0, "won": 0, "skipped": 0, "notfound": 0, "stop": 0, "reads": 0, "dropped": 0}
    after_fault = set()
    for r in recs:
        p, op = r["p"], r["op"]
        e = dict(FIELDS, p=p, ph=r["ph"], seq=r["seq"], op=op)
        if r["ph"] == "ev":
            e["at"] = r["at"]
            nf += op == "Fault"
            nc += op == "Crash"
            after_fault.add(p)
            events.append(e)
            continue
        ret = rets.get((p, r["seq"]))
        src = ret if ret is not None else r
        e["a"], e["k"] = src.get("a") or "-", src.get("k") or "-"
        if op == "Write":
            n = wn.get((p, r["seq"]), 0)
            if n == 0 or (ret is None):
                info["dropped"] += 1
                continue            # stuttering step (nothing the model distinguishes changes)
            e["n"] = n
        if op == "Close" and role.get(p) == "mirror" and p not in after_fault and 0 < total.get(p, 0) and ("done", p) not in first:
            e["n"] = 2              # Stop + Close: the mirror ends before the end of its source
            if r["ph"] == "call":
                info["stop"] += 1
        if ret is not None:
            if op in ("Exists", "Link", "RRead"):
                e["res"] = ret.get("res", "?")
            if op in ("MOpen", "ROpen"):
                e["saw"] = saw[(p, r["seq"])]
            if r["ph"] == "call":
                if op == "Link":
                    info[e["res"]] = info.get(e["res"], 0) + 1
                if op == "Exists" and e["res"] == "present":
                    info["skipped"] += 1
                if op == "MOpen" and e["saw"] == "-":
                    info["notfound"] += 1
                if op == "RRead":
                    info["reads"] += 1
        events.append(e)
    return events, nf, nc, info


# ------------------------------------------------------------------------------------------------
# TLC

def validate(traces, rep=None, name="TraceArchivePublish", timeout=900):
    """traces: list of {"ev": [...], "nf": n, "nc": n}.  -> list of per-trace dicts
    {"matched": n, "len": n, "violated": invariant | None, "cex": [...]} (one TLC run per batch; a trace on which an
    invariant fails is taken out and the rest is run again so that every trace gets its own verdict)"""
    out = [None] * len(traces)
    todo = list(range(len(traces)))
    work = common.scratch("vf-c09t-")
    runs = 0
    while todo:
        runs += 1
        tf = os.path.join(work, "traces%d.json" % runs)
        with open(tf, "w") as f:
            json.dump([{"ev": traces[i]["ev"] or [dict(FIELDS, p="U1", ph="nop", seq=0, op="nop")],
                        "nf": traces[i]["nf"], "nc": traces[i]["nc"]} for i in todo], f)
        res = tlc.run("TraceArchivePublish", "TraceArchivePublish.cfg", workers=1, timeout=timeout,
                      env={"TRACE_FILE": tf}, deadlock=False)
        if rep is not None:
            rep.add_tlc(res, "%s run %d (%d traces)" % (name, runs, len(todo)))
        if res.violated:
            import re
            m = None
            for act, text in reversed(res.cex):
                m = re.search(r"/\\ tid = (\d+)", text)
                if m:
                    break
            if not m:
                raise tlc.TlcError("trace validation: %s violated but no trace id in the counterexample:\n%s" % (res.violated, res.out[-2000:]))
            j = int(m.group(1)) - 1
            i = todo[j]
            out[i] = {"matched": None, "len": len(traces[i]["ev"]), "violated": res.violated,
                      "cex": [(a, " ".join(t.split())[:1500]) for a, t in res.cex[-3:]]}
            todo.pop(j)
            if runs > 12:
                raise tlc.TlcError("trace validation: more than 12 traces violate invariants")
            continue
        if not res.printed:
            raise tlc.TlcError("trace validation printed no result:\n" + res.out[-2000:])
        reached = res.printed[-1]
        for j, i in enumerate(todo):
            n = reached[j] if isinstance(reached, list) else reached[str(j + 1)]
            out[i] = {"matched": n, "len": len(traces[i]["ev"]), "violated": None}
        todo = []
    return out


def corruptions(trace):
    """corrupted copies of a trace: one publish result flipped, one event dropped, one exists result flipped"""
    import copy
    ev = trace["ev"]
    idx = [j for j, e in enumerate(ev) if e["op"] == "Link" and e["ph"] == "call" and e["res"] == "lost"] or \
          [j for j, e in enumerate(ev) if e["op"] == "Link" and e["ph"] == "call" and e["res"] == "won"]
    drop = [x for x, e in enumerate(ev) if e["op"] in ("Close", "MkTemp") and e["ph"] == "call"]
    if not idx or not drop:
        return []
    j = idx[0]
    t1 = copy.deepcopy(trace)
    t1["ev"][j]["res"] = "won" if ev[j]["res"] == "lost" else "lost"
    t2 = copy.deepcopy(trace)
    dropped = t2["ev"].pop(drop[0])
    muts = [("publish result of %s: %s -> %s" % (ev[j]["p"], ev[j]["res"], t1["ev"][j]["res"]), t1),
            ("event dropped: %s %s of %s" % (dropped["op"], dropped["ph"], dropped["p"]), t2)]
    x = [x for x, e in enumerate(ev) if e["op"] == "Exists" and e["ph"] == "call" and e["res"] in ("present", "absent")]
    if x:
        t3 = copy.deepcopy(trace)
        e = t3["ev"][x[0]]
        e["res"] = "present" if e["res"] == "absent" else "absent"
        muts.append(("exists result of %s flipped to %s" % (e["p"], e["res"]), t3))
    return muts


def judge_corruptions(i, trace, muts, verdicts):
    """every corrupted copy must be REJECTED (prefix shorter than the trace, no invariant involved); raises otherwise"""
    res = []
    for (what, m), v in zip(muts, verdicts):
        rejected = v["violated"] is None and v["matched"] < v["len"]
        res.append({"corruption": what, "rejected_at_event": (v["matched"] + 1) if rejected else None, "of": v["len"], "rejected": rejected})
        if not rejected:
            raise RuntimeError("trace self-test: corrupted trace (%s) was not rejected: %r" % (what, v))
    return {"trace": i, "events": len(trace["ev"]), "accepted_unmodified": True, "corruptions": res}


def selftest(traces, verdicts):
    """the same on the first accepted trace with a publish attempt, in a TLC run of its own"""
    for i, t in enumerate(traces):
        v = verdicts[i]
        if v["violated"] or v["matched"] != v["len"]:
            continue
        muts = corruptions(t)
        if muts:
            vs = validate([t] + [m for _, m in muts], None)
            if vs[0]["violated"] or vs[0]["matched"] != vs[0]["len"]:
                raise RuntimeError("trace self-test: the unmodified trace is not accepted on its own: %r" % (vs[0],))
            return judge_corruptions(i, t, muts, vs[1:])
    raise RuntimeError("trace self-test: no accepted trace with a publish attempt")
