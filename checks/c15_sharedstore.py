"""C15  Shared package store is safe under concurrent projects.

(A) TLC checks specs/SharedStore.tla exhaustively: the repaired protocol (Weak = {}) satisfies every
    P invariant; the protocol as the code implements it (Weak = CODE_WEAK = {LinkAfterUnlock}, the
    KNOWN finding S2) satisfies every P invariant that is not the direct statement of that weakness;
    coverage + reachability configs for vacuity.
    For every weakness w of the module (LinkAfterUnlock, LostRaceUnregistered, GcNeedsRepoJson,
    RepoCreateWindow, UnlockBeforeFlush, InspectRace) TLC searches the weakened model for a
    shortest counterexample of the P invariant that w breaks; the counterexample is replayed
    against the real code (B); if the real execution violates P, the violation is reported under
    its stable signature (for the repaired weaknesses that is a regression).
(B) Real bob.share.LocalShare objects (one per logical project) driven through the real
    LocalBuilder._useSharedPackage / _installSharedPackage (workspace symlink bookkeeping) run as
    actors under vf.sched + vf.fsint installed on bob.share and bob.builder.  The driver follows
    TLC behaviours (simulation of the current-code model + the counterexamples) lock operation by
    lock operation / file-system operation by file-system operation; after every single real
    operation the real store is projected (directory listing, repo.json, pkg.json, hashDirectory of
    every visible package, link targets of the workspaces) and the P invariants are evaluated on
    it by an oracle that does not know the mechanism model.  A seed driven random scheduler over
    the same actors explores interleavings the model does not allow (mutated lock protocols).
(C) N real OS processes (real blocking flock) run install/use/gc/rm -rf loops on one store; no operation
    may raise, the store invariants must hold at quiescence (thorough: also large rounds without
    recorder).  Both tiers: the processes run under the recorder of checks/c15_trace.py (one event
    per SharedStore action at its linearization point, emitted while the protecting flock is held,
    ordered by a sequence number taken under a global recorder flock); TLC validates every trace
    against specs/TraceSharedStore.tla (model of the code as it is, Weak = CODE_WEAK), evaluating
    every P invariant in every state of the matched behaviour.  P false on a validated trace =>
    violation under the signature of the (B) oracle; trace rejected without P violation =>
    model_drift.  Self-test in every run: a corrupted field / a dropped event must be rejected.

Verdict: P violated on the real store / an operation raising without injected fault => VIOLATION.
Disagreement between code and mechanism model that does not violate P => model_drift.
"""
import errno
import hashlib
import json
import multiprocessing as mp
import os
import random
import re
import shutil
import sys
import threading
import time
import traceback
from concurrent.futures import ThreadPoolExecutor

from vf import common, tlc, evidence, fsint, sched
from checks import c15_trace

PROP = "C15"
BIDS = {"b1": bytes([0x11]) * 20, "b2": bytes([0x22]) * 20}
CONTENT = {"b1": b"1" * 100, "b2": b"2" * 200}
UNIT = 100                       # real bytes per model size unit
NOQUOTA = 99
NW = max(1, int(os.environ.get("VF_WORKERS", "16") or 16))     # worker processes / TLC workers (default 16)
ALL_WEAK = ["LinkAfterUnlock", "LostRaceUnregistered", "GcNeedsRepoJson", "RepoCreateWindow", "UnlockBeforeFlush",
            "InspectRace"]
# the protocol of the code as it is now = repaired protocol + these weaknesses (S2: KNOWN finding, needs a protocol
# change).  The other members of ALL_WEAK were repaired in /repo (b16c9a4 f0265a1 6b36430 73d2575 81dbecb); their
# shortest counterexamples are still replayed as targeted regression tests and must come out clean.
CODE_WEAK = ["LinkAfterUnlock"]
# weakness -> [(invariant it breaks (config SharedStore_weak_<inv>.cfg), signature that confirms it on the real
#               code, weaknesses switched off in the model that produces the counterexample)]
WEAK_CEX = {
    "LinkAfterUnlock": [("NoDanglingUse", "use-then-gc-before-link-dangling", ()),
                        ("NoDanglingInst", "install-then-gc-before-link-dangling", ()),
                        ("NoDanglingLinkToCollected", "install-returns-collected-package-dangling", ())],
    "LostRaceUnregistered": [("NoDanglingUnregistered", "lost-install-race-user-never-registered", ())],
    "GcNeedsRepoJson": [("NoGcFailEmptyStore", "gc-on-store-without-repo-json", ())],
    "RepoCreateWindow": [("NoJsonFailureGc", "gc-reads-empty-repo-json", ("UnlockBeforeFlush",)),
                         ("NoJsonFailureInstall", "install-reads-empty-repo-json", ("UnlockBeforeFlush",))],
    "UnlockBeforeFlush": [("NoJsonFailureUse", "use-reads-empty-pkg-json", ())],
    "InspectRace": [("NoInspectFailure", "gc-fails-user-link-vanished-during-check", ())],
}
# P sub-invariants that are the direct statement of a weakness (not checked on the current-code model)
WEAK_BREAKS = {
    "LinkAfterUnlock": {"NoDanglingUse", "NoDanglingInst", "NoDanglingLost", "NoDanglingLinkToCollected"},
    "LostRaceUnregistered": {"NoDanglingUnregistered", "NoDanglingLost", "NoDanglingDuring", "NoDanglingLinkToCollected"},
    "GcNeedsRepoJson": {"NoGcFailEmptyStore"},
    "RepoCreateWindow": {"NoJsonFailureGc", "NoJsonFailureInstall"},
    "UnlockBeforeFlush": {"NoJsonFailureGc", "NoJsonFailureInstall", "NoJsonFailureUse"},
    "InspectRace": {"NoInspectFailure"},
}
P_INVARIANTS = ["TypeOK", "VisibleIsComplete", "HashMatches", "NoDanglingUse", "NoDanglingInst", "NoDanglingLost",
                "NoDanglingLinked", "NoDanglingUnregistered", "NoDanglingDuring", "NoDanglingLinkToCollected", "NoGcFailEmptyStore", "NoJsonFailureGc",
                "NoJsonFailureInstall", "NoJsonFailureUse", "NoInspectFailure", "SizeAccounting", "AutoCleanPolicy",
                "LocksFreeAtQuiescence", "NoLockDeadlock"]
ACTIONS = ["StartUse", "StartInst", "StartGc", "Unlink", "U_OpenRepo", "U_LockRepo", "U_OpenPkg", "U_LockPkg", "U_IsDir",
           "U_Register", "U_UnlockPkg", "U_ClosePkg", "U_UnlockRepo", "B_Prune", "B_Link", "B_Unshare", "I_Quick", "I_MkDirs",
           "I_Prepare", "I_Meta", "I_Rename", "A_Open", "A_Create", "A_Open2", "A_LockC", "A_Lock", "A_Unlock", "A_Close",
           "G_IsDir", "G_OpenRepo", "G_LockRepo", "G_OpenPkg", "G_LockPkg", "G_IsLink", "G_ReadLink", "G_UnlockPkg",
           "G_Remove", "G_UnlockRepo", "G_Close"]
REACH = ["ReachLostRename", "ReachCreateRace", "ReachAutoRemove", "ReachUsedKept", "ReachTwoCandidates", "ReachUseBlockedByGc"]


# ---------------------------------------------------------------------------------------------
# real world: one store, several projects, real LocalBuilder/LocalShare per project

class FakeState:
    """Per-project stand-in for the BobState singleton (which is bound to the process cwd):
    exactly the getters/setters the two builder methods use, kept in memory."""

    def __init__(self):
        self.inp, self.res, self.sto, self.vid = {}, {}, {}, {}

    def getInputHashes(self, p):
        return self.inp.get(p)

    def setInputHashes(self, p, v):
        self.inp[p] = v

    def resetWorkspaceState(self, p, d):
        self.inp.pop(p, None)
        self.res.pop(p, None)

    def setResultHash(self, p, h):
        self.res[p] = h

    def getResultHash(self, p):
        return self.res.get(p)

    def setVariantId(self, p, v):
        self.vid[p] = v

    def setStoragePath(self, p, s):
        self.sto[p] = s


class StepStub:
    def __init__(self, ws):
        self.ws = ws

    def getWorkspacePath(self):
        return self.ws

    def getVariantId(self):
        return b"v" * 20

    def isShared(self):
        return True


class ShareRec:
    """Delegates to the real LocalShare and records what the API returned to the builder."""

    def __init__(self, real, log):
        self._real = real
        self._log = log

    def __getattr__(self, n):
        return getattr(self._real, n)

    def useSharedPackage(self, workspace, buildId):
        r = self._real.useSharedPackage(workspace, buildId)
        self._log.append(("use", r[0], None))
        return r

    def installSharedPackage(self, workspace, buildId, sharedHash, mayMove):
        r = self._real.installSharedPackage(workspace, buildId, sharedHash, mayMove)
        self._log.append(("inst", r[0], r[1]))
        return r


_tl = threading.local()
_hash_cache = {}


def _state_factory():
    return _tl.state


class Violation(Exception):
    def __init__(self, sig, detail):
        Exception.__init__(self, sig)
        self.sig, self.detail = sig, detail


class Drift(Exception):
    pass


class Project:
    def __init__(self, world, name):
        self.name = name
        self.dir = os.path.join(world.root, "proj", name, "dev", "dist", "pkg", "1")
        self.ws = os.path.join(self.dir, "workspace")
        self.audit = os.path.join(self.dir, "audit.json.gz")
        self.state = FakeState()
        self.apilog = []
        self.nops = 0
        self.last_api = None      # (kind, wasInstalled) of the last share API call that returned a path
        self.stale = False        # its link / claim was broken by a forced gc (allowed) and not renewed since
        self.reset_op()

    def reset_op(self):
        self.kind = None          # current operation: use | inst | gc
        self.b = None
        self.params = {}
        self.actor = None
        self.ctx = {"pkg_ex": False, "repo": None, "gc": False, "created": False, "add_opened": False,
                    "closing": None, "pkg_open": None, "repo_open": False}
        self.claim = None         # (b, how) between API return and link


class World:
    """The real store + projects + actors under the deterministic scheduler, and the P oracle."""

    def __init__(self, root, quota, trace=None):
        from bob import share as bshare, builder as bbuilder, utils as butils
        self.bshare, self.bbuilder, self.butils = bshare, bbuilder, butils
        self.root = root
        self.store = os.path.join(root, "store")
        self.repo_json = os.path.join(self.store, "repo.json")
        self.quota = quota
        self.projects = {}
        self.ip = fsint.Interposer(record_reads=True)
        self.sch = sched.Sched(self.ip)
        self.raw_ops = 0
        self.anchors = 0
        self.vclock = 1_600_000_000
        self.stamps = {}          # inode of a pkg.json -> virtual mtime we assigned
        self.prev = None          # last anchor-level observation
        self.sections = {}        # gc actor -> stable-unused set (P level) since it took the repo lock
        self.section_info = {}
        self.removed = []         # (b, by, forced)
        self.features = set()
        self.trace = trace if trace is not None else []
        self.expected_fail = set()
        self.failed = {}          # project -> exception text of the last failed op
        self.tags = {}            # b -> tag of the installation seen visible
        self.gone_tags = {}       # installations that have been collected -> by a forced gc?
        from bob.tty import DummyTUIAction
        w = self

        def remove_path(p):
            return w.ip._op("removePath", (os.path.normpath(p),), lambda: butils.removePath(p))
        self.ip.install(bshare)
        self.ip.install(bbuilder, extra={"BobState": _state_factory, "removePath": remove_path,
                                         "stepMessage": lambda *a, **k: None,
                                         "stepAction": lambda *a, **k: DummyTUIAction()})
        for wn in ("warnRepoSize", "warnGcDidNotHelp"):
            getattr(bshare, wn).show = lambda *a, **k: None

    def close(self):
        for p in self.projects.values():
            if p.actor and self.sch.state(p.actor) == "parked":
                self.sch.kill(p.actor)
        self.ip.uninstall()

    # -- paths -------------------------------------------------------------
    def pkgdir(self, b):
        h = BIDS[b].hex() + "-3"
        return os.path.join(self.store, h[0:2], h[2:4], h[4:])

    def pkgjson(self, b):
        return os.path.join(self.pkgdir(b), "pkg.json")

    def bid_of_path(self, path):
        for b in BIDS:
            d = self.pkgdir(b)
            if path == d or path.startswith(d + os.sep):
                return b
        return None

    def proj_of_ws(self, path):
        for p in self.projects.values():
            if path == p.ws:
                return p.name
        return None

    def project(self, name):
        if name not in self.projects:
            self.projects[name] = Project(self, name)
            os.makedirs(self.projects[name].dir, exist_ok=True)
        return self.projects[name]

    # -- building blocks ------------------------------------------------------
    def mkbuilder(self, proj, use_shared=True, quota=True):
        b = self.bbuilder.LocalBuilder(0, False, False, False, False, [], None, False, True)
        spec = {"path": self.store}
        if quota and self.quota != NOQUOTA:
            spec["quota"] = self.quota * UNIT
        b.setShareHandler(ShareRec(self.bshare.LocalShare(spec), proj.apilog))
        b.setShareMode(use_shared, True)
        return b

    def build_workspace(self, proj, b, tag):
        """what the package step leaves behind: a real directory + audit trail"""
        if os.path.lexists(proj.ws):
            if os.path.islink(proj.ws):
                os.unlink(proj.ws)
            else:
                shutil.rmtree(proj.ws)
        if os.path.lexists(proj.audit):
            os.unlink(proj.audit)
        os.makedirs(proj.ws)
        with open(os.path.join(proj.ws, "result.txt"), "wb") as f:
            f.write(CONTENT[b])
        with open(proj.audit, "w") as f:
            f.write(tag)
        proj.state.resetWorkspaceState(proj.ws, None)

    def expected_hash(self, b):
        if b not in _hash_cache:
            d = os.path.join(self.root, "tmpl-" + b)
            os.makedirs(d)
            with open(os.path.join(d, "result.txt"), "wb") as f:
                f.write(CONTENT[b])
            _hash_cache[b] = self.butils.hashDirectory(d)
            shutil.rmtree(d)
        return _hash_cache[b]

    # -- initial store (through the real API, sequentially, before any actor exists) -------------
    def setup(self, init):
        kind = init["x"]
        if kind == "nodir":
            return
        os.makedirs(self.store)
        if kind == "emptydir":
            return
        self.ip.enabled = False
        try:
            z = self.project("Z")         # a project that has been deleted since: installs, never links
            users = init.get("users", {})
            age = {b: i for i, b in enumerate(init.get("order", []))}
            for b in init.get("repo", []):
                self.build_workspace(z, b, "Z:init:" + b)
                _tl.state = z.state
                z.state.setResultHash(z.ws, self.expected_hash(b))
                bld = self.mkbuilder(z, use_shared=False, quota=False)
                bld._installSharedPackage(StepStub(z.ws), BIDS[b])
                shutil.rmtree(z.ws)
                for u in users.get(b, []):
                    p = self.project(u)
                    _tl.state = p.state
                    self.mkbuilder(p, quota=False)._useSharedPackage(StepStub(p.ws), BIDS[b])
            if not init.get("repo"):
                # a store that has been emptied by gc: repo.json with no packages
                with open(self.repo_json, "w") as f:
                    json.dump({"pkgs": {}}, f)
            # final links as in the model state; everybody else has moved on (link removed, state forgotten)
            wsm = init.get("ws", {})
            for u, p in self.projects.items():
                if u == "Z":
                    continue
                want = wsm.get(u, ["none"])
                cur = os.readlink(p.ws) if os.path.islink(p.ws) else None
                tgt = os.path.join(self.pkgdir(want[1]), "workspace") if want[0] == "link" else None
                if cur != tgt:
                    if cur is not None:
                        os.unlink(p.ws)
                        if os.path.lexists(p.audit):
                            os.unlink(p.audit)
                    p.state = FakeState()
                    if tgt is not None:
                        _tl.state = p.state
                        self.mkbuilder(p, quota=False)._useSharedPackage(StepStub(p.ws), BIDS[want[1]])
            # ages of pkg.json as in the model
            for b in sorted(age, key=lambda x: age[x]):
                self.vclock += 10
                os.utime(self.pkgjson(b), ns=(self.vclock * 10**9, self.vclock * 10**9))
                self.stamps[os.stat(self.pkgjson(b)).st_ino] = self.vclock * 10**9
            for p in self.projects.values():
                p.apilog.clear()
        finally:
            self.ip.enabled = True
        self.prev = self.observe(full=True)
        for b, v in self.prev["pkgs"].items():
            self.tags[b] = v["tag"]

    # -- actors -----------------------------------------------------------------------------
    def start(self, name, kind, **kw):
        proj = self.project(name)
        if proj.actor and self.sch.state(proj.actor) == "parked":
            raise Drift("project %s still busy" % name)
        proj.reset_op()
        proj.kind, proj.params = kind, kw
        proj.nops += 1
        proj.apilog.clear()
        an = "%s%d" % (name, proj.nops)
        proj.actor = an
        st = proj.state
        if kind == "use":
            proj.b = kw["b"]
            bld = self.mkbuilder(proj)
            bid = BIDS[proj.b]

            def fn():
                _tl.state = st
                return bld._useSharedPackage(StepStub(proj.ws), bid)
        elif kind == "inst":
            proj.b = kw["b"]
            self.ip.enabled = False
            try:
                self.build_workspace(proj, proj.b, "%s:%d" % (name, proj.nops))
            finally:
                self.ip.enabled = True
            h = self.expected_hash(proj.b)
            if kw.get("bad"):
                h = hashlib.sha1(b"something else").digest()
                self.expected_fail.add(an)
            st.setResultHash(proj.ws, h)
            bld = self.mkbuilder(proj, use_shared=bool(kw.get("mv")))
            bid = BIDS[proj.b]

            def fn():
                _tl.state = st
                return bld._installSharedPackage(StepStub(proj.ws), bid)
        elif kind == "gc":
            spec = {"path": self.store}
            if self.quota != NOQUOTA:
                spec["quota"] = self.quota * UNIT
            sh = self.bshare.LocalShare(spec)
            pu, pn = bool(kw.get("pu")), bool(kw.get("pn"))

            def fn():
                return sh.gc(pu, pn)
        else:
            raise ValueError(kind)
        self.sch.spawn(an, fn)
        self.trace.append(["start", name, kind, {k: v for k, v in kw.items()}])
        self.after_raw(proj)
        self.settle(proj)
        self.after_anchor(proj)

    def unlink(self, name):
        """rm -rf of the project by its user"""
        proj = self.project(name)
        shutil.rmtree(os.path.join(self.root, "proj", name), ignore_errors=True)
        os.makedirs(proj.dir, exist_ok=True)
        proj.state = FakeState()
        proj.stale = False
        self.trace.append(["unlink", name])
        self.prev = self.observe(full=True)

    def busy(self, name):
        proj = self.projects.get(name)
        return bool(proj and proj.actor and self.sch.state(proj.actor) == "parked")

    def classify(self, proj, op=None):
        """model action the pending real operation of the project's actor stands for, or None = private"""
        if op is None:
            op = self.sch.pending(proj.actor)
        if op is None:
            return None
        n = op.name
        a = [x for x in op.args if isinstance(x, str)]
        p0 = a[0] if a else ""
        ctx = proj.ctx
        if p0 == self.repo_json:
            if n == "open.r":
                return "U_OpenRepo"
            if n == "flock.sh":
                return "U_LockRepo"
            if n == "open.r+":
                return "G_OpenRepo" if ctx["gc"] else ("A_Open2" if ctx["add_opened"] else "A_Open")
            if n.startswith("open.x"):
                return "A_Create"
            if n == "open.a":
                return "R_Touch"
            if n == "flock.ex":
                return "G_LockRepo" if ctx["gc"] else ("A_LockC" if ctx["created"] else "A_Lock")
            if n == "flock.un":
                return {"U": "U_UnlockRepo", "A": "A_Unlock", "G": "G_UnlockRepo"}.get(ctx["repo"], "X_UnlockRepo")
            if n == "close":
                return {"A": "A_Close", "G": "G_Close"}.get(ctx["closing"])
            if n in ("path.isfile", "path.exists"):
                return "G_IsDir"          # a gc that looks for repo.json instead of the directory
            return None
        if n == "path.isdir" and p0 == self.store:
            return "G_IsDir"
        if n == "symlink":
            return "B_Link" if len(a) == 2 and a[1] == proj.ws else None
        b = self.bid_of_path(p0)
        if b is not None:
            if p0 == self.pkgjson(b):
                if n == "open.r+":
                    return "U_OpenPkg"
                if n == "flock.ex":
                    return "U_LockPkg"
                if n in ("truncate", "utime"):
                    return "U_Register"
                if n == "open.r":
                    return "G_OpenPkg"
                if n == "flock.sh":
                    return "G_LockPkg"
                if n == "flock.un":
                    return "U_UnlockPkg" if ctx["pkg_ex"] else "G_UnlockPkg"
                if n == "close":
                    return "U_ClosePkg"
                return None
            if p0 == self.pkgdir(b):
                if n == "path.isdir":
                    return "U_IsDir" if ctx["pkg_ex"] else "I_Quick"
                if n in ("rename", "replace"):
                    return "G_Remove"
                if n in ("shutil.rmtree", "rmdir", "shutil.move"):
                    return "X_RemovePkg"
            return None
        if n in ("rename", "replace") and len(a) == 2 and self.bid_of_path(a[1]) is not None and a[1] == self.pkgdir(self.bid_of_path(a[1])):
            return "I_Rename"
        if n == "makedirs" and p0.startswith(self.store + os.sep):
            return "I_MkDirs"
        if n in ("shutil.move", "shutil.copytree") and p0 == proj.ws:
            return "I_Prepare"
        if n == "open.w" and p0.startswith(self.store + os.sep) and p0.endswith(os.sep + "pkg.json"):
            return "I_Meta"
        who = self.proj_of_ws(p0)
        if who is not None and who != "Z":
            if n == "path.islink" and ctx["gc"]:
                return "G_IsLink"
            if n == "readlink" and ctx["gc"]:
                return "G_ReadLink"
        if p0 == proj.ws or (len(a) == 2 and a[1] == proj.ws):
            if n == "unlink":
                return "B_Prune" if proj.apilog and proj.apilog[-1][1] else "B_Unshare"
            if n == "removePath":
                return "B_Prune" if os.path.lexists(proj.ws) else None
            if n == "symlink":
                return "B_Link"
        return None

    def _track(self, proj, act, op):
        """bookkeeping of the actor's position used by classify (names of real operations only)"""
        ctx = proj.ctx
        ok = op.exc is None
        if act == "G_IsDir":
            ctx["gc"] = True
        elif act in ("A_Open", "A_Open2"):
            ctx["add_opened"] = True
            ctx["repo_open"] = ctx["repo_open"] or ok
        elif act == "G_OpenRepo":
            ctx["repo_open"] = ok
        elif act == "A_Create":
            ctx["created"] = ok
            ctx["repo_open"] = ctx["repo_open"] or ok
        elif act in ("A_Close", "G_Close", "X_CloseRepo"):
            ctx["repo_open"] = False
            ctx["closing"] = None
        elif act == "U_OpenPkg":
            ctx["pkg_open"] = self.bid_of_path(op.args[0]) if ok else None
        elif act == "U_ClosePkg":
            ctx["pkg_open"] = None
        elif act == "U_LockRepo" and ok:
            ctx["repo"] = "U"
        elif act in ("A_Lock", "A_LockC") and ok:
            ctx["repo"] = "A"
        elif act == "G_LockRepo" and ok:
            ctx["repo"] = "G"
        elif act in ("U_UnlockRepo", "A_Unlock", "G_UnlockRepo", "X_UnlockRepo"):
            if act == "G_UnlockRepo":
                ctx["gc"] = False
                ctx["closing"] = "G"
            if act == "A_Unlock":
                ctx["created"] = False
                ctx["add_opened"] = False
                ctx["closing"] = "A"
            ctx["repo"] = None
        elif act == "U_LockPkg" and ok:
            ctx["pkg_ex"] = True
        elif act == "U_UnlockPkg":
            ctx["pkg_ex"] = False

    def step_raw(self, proj):
        """perform exactly the pending real operation of the actor; returns (status, action, op)"""
        op = self.sch.pending(proj.actor)
        act = self.classify(proj, op)
        nops = len(self.ip.ops)
        before_vis = {b for b in BIDS if os.path.isdir(self.pkgdir(b))}
        r = self.sch.step(proj.actor)
        if r == "blocked":
            return r, act, op
        self.raw_ops += 1
        done_op = None
        for o in self.ip.ops[nops:]:
            if o.actor == proj.actor and o.name == op.name and o.args == op.args:
                done_op = o
                break
        if act and done_op is not None:
            self._track(proj, act, done_op)
        self.after_raw(proj, before_vis, act)
        return r, act, op

    def settle(self, proj):
        """run the actor over private operations until it is parked before an anchor or has finished"""
        n = 0
        while self.sch.state(proj.actor) == "parked":
            if self.classify(proj) is not None:
                return
            r, _, op = self.step_raw(proj)
            if r == "blocked":
                raise Drift("private operation blocked: %r" % (op,))
            n += 1
            if n > 5000:
                raise RuntimeError("actor does not reach an anchor")

    def step_anchor(self, name, expect=None):
        """one model-level step of project `name`: the anchor operation + the private operations after it"""
        proj = self.projects[name]
        if not self.busy(name):
            raise Drift("%s: no operation in progress (model expects %s)" % (name, expect))
        act = self.classify(proj)
        if expect is not None and act != expect:
            raise Drift("%s: model expects %s, the code is at %s (%r)" % (name, expect, act, self.sch.pending(proj.actor)))
        an = proj.actor
        r, act, op = self.step_raw(proj)
        if r == "blocked":
            return "blocked", act
        self.anchors += 1
        self.trace.append(["step", name, act])
        self.settle(proj)
        self.after_anchor(proj, act)
        return self.sch.state(an), act

    # -- P oracle --------------------------------------------------------------------------------
    def viol(self, sig, **detail):
        detail["trace"] = list(self.trace)
        raise Violation(sig, detail)

    def content_ok(self, b):
        """hash of the visible package content == the hash of build-id b (cached on stat data)"""
        d = os.path.join(self.pkgdir(b), "workspace")
        try:
            names = sorted(os.listdir(d))
            st = os.stat(os.path.join(d, "result.txt")) if names == ["result.txt"] else None
        except OSError:
            return None
        if st is None:
            return False
        key = (b, st.st_ino, st.st_size, st.st_mtime_ns, st.st_mode)
        if key not in _hash_cache:
            _hash_cache[key] = self.butils.hashDirectory(d) == self.expected_hash(b)
        return _hash_cache[key]

    def links(self):
        res = {}
        for p in self.projects.values():
            if p.name == "Z":
                continue
            if os.path.islink(p.ws):
                t = os.readlink(p.ws)
                res[p.name] = ("link", self.bid_of_path(t), t)
            elif os.path.isdir(p.ws):
                res[p.name] = ("dir", None, None)
            else:
                res[p.name] = ("none", None, None)
        return res

    def p_used(self, b, links):
        for p in self.projects.values():
            if p.name == "Z":
                continue
            if links[p.name][0] == "link" and links[p.name][1] == b:
                return True
            if p.claim and p.claim[0] == b:
                return True
        return False

    def restamp(self):
        """pkg.json ages: the kernel's timestamp granularity (ms) must not decide 'oldest first'; every
        pkg.json that was written/touched since the last look gets the next tick of a virtual clock."""
        cands = []
        for b in BIDS:
            cands.append(self.pkgjson(b))
        try:
            for e in os.listdir(self.store):
                if e.startswith("tmp"):
                    cands.append(os.path.join(self.store, e, "pkg", "pkg.json"))
        except OSError:
            return
        for f in cands:
            try:
                st = os.stat(f)
            except OSError:
                continue
            if self.stamps.get(st.st_ino) != st.st_mtime_ns:
                self.vclock += 10
                ns = self.vclock * 10**9
                os.utime(f, ns=(ns, ns))
                self.stamps[st.st_ino] = ns

    def after_raw(self, proj, before_vis=None, act=None):
        """after every single real operation: claims, content of what is visible, collections"""
        self.restamp()
        # claims: the share API has returned a path to the builder of this project
        if proj.apilog and proj.claim is None and proj.kind in ("use", "inst") and not proj.ctx.get("claimed"):
            kind, path, flag = proj.apilog[-1]
            if path is not None:
                proj.last_api = (kind, flag)
            if path is not None and (kind == "use" or proj.params.get("mv")):
                how = "use" if proj.kind == "use" else ("inst" if flag else "lost")
                proj.claim = (self.bid_of_path(path), how)
            proj.ctx["claimed"] = True
            if kind == "inst" and flag:
                tag = self.read_tag(proj.b)
                mine = "%s:%d" % (proj.name, proj.nops)
                if tag is not None and tag != mine:
                    if mine not in self.gone_tags:
                        self.viol("two-installers-claim-success", b=proj.b, store_has=tag, second=proj.name)
                    if self.gone_tags[mine]:
                        proj.stale = True        # a forced gc took it away (allowed)
                    elif proj.params.get("mv"):
                        # collected before the API returned, and installed again by somebody else: the builder
                        # will link to a package that is not this project's (it is not recorded as its user)
                        self.viol("install-returns-collected-package-dangling", b=proj.b, project=proj.name,
                                  last_api=proj.last_api, reinstalled_by=tag)
        links = self.links()
        if proj.claim and links[proj.name][0] == "link" and links[proj.name][1] == proj.claim[0]:
            proj.claim = None
        if act in ("B_Prune", "B_Unshare") and not proj.claim:
            proj.stale = False
        if act == "B_Link" and links[proj.name][0] == "link":
            b = links[proj.name][1]
            for si in self.section_info.values():
                # this link was made while that gc held the repo lock
                si["links"][proj.name] = ("during", "inst" if proj.last_api == ("inst", True) else "other")
            gone = bool(b) and not os.path.isdir(self.pkgdir(b))
            was_stale, proj.stale = proj.stale, gone
            if gone and not was_stale:
                # nobody was a victim when it was collected: the package was gone before the API returned its path
                self.viol({("inst", True): "install-returns-collected-package-dangling",
                           ("inst", False): "lost-install-race-returns-collected-package-dangling"}.get(
                               proj.last_api, "use-returns-collected-package-dangling"),
                          b=b, project=proj.name, last_api=proj.last_api)
        vis = set()
        for b in BIDS:
            if os.path.isdir(self.pkgdir(b)):
                vis.add(b)
                ok = self.content_ok(b)
                if ok is False:
                    self.viol("visible-package-hash-mismatch", b=b, by=proj.name, at=act)
                if ok is None:
                    self.viol("visible-package-incomplete", b=b, by=proj.name, at=act, what="no workspace")
                try:
                    sz = os.path.getsize(self.pkgjson(b))
                except OSError:
                    sz = -1
                if sz <= 0 and not any(q.ctx["pkg_open"] == b for q in self.projects.values()):
                    self.viol("visible-package-incomplete", b=b, by=proj.name, at=act,
                              what="pkg.json missing" if sz < 0 else "pkg.json empty, nobody is rewriting it")
        # P-level unused sets of running gc sections
        for g in list(self.sections):
            self.sections[g] &= {b for b in BIDS if not self.p_used(b, links)}
        if before_vis is not None:
            for b in sorted(before_vis - vis):
                self.on_removed(b, proj, links, act)
        return vis

    def read_tag(self, b):
        try:
            with open(os.path.join(self.pkgdir(b), "audit.json.gz")) as f:
                return f.read()
        except OSError:
            return None

    def on_removed(self, b, proj, links, act):
        forced = proj.kind == "gc" and proj.params.get("pu")
        self.removed.append((b, proj.name, forced))
        self.gone_tags[self.tags.pop(b, None)] = bool(forced)
        if not proj.ctx["gc"]:
            self.viol("package-removed-outside-gc", b=b, by=proj.name, at=act)
        if forced:
            self.features.add("forced-collect")
            for p in self.projects.values():
                if (p.claim and p.claim[0] == b) or (links.get(p.name, ("",))[0] == "link" and links[p.name][1] == b):
                    p.stale = True
            return
        prev_users = (self.prev or {}).get("pkgs", {}).get(b, {}).get("users", [])
        sinfo = self.section_info.get(proj.name) or {"claims": {}, "links": {}}
        for p in self.projects.values():
            if p.name == "Z" or p.stale:
                continue
            if not ((p.claim and p.claim[0] == b) or (links[p.name][0] == "link" and links[p.name][1] == b)):
                continue
            det = dict(b=b, collector=proj.name, victim=p.name, users=prev_users, last_api=p.last_api,
                       victim_now="claim" if p.claim else "linked")
            # what the victim was doing when this gc took the repository lock
            c0 = sinfo["claims"].get(p.name)
            csig = {"use": "use-then-gc-before-link-dangling", "inst": "install-then-gc-before-link-dangling",
                    "lost": "lost-install-race-then-gc-before-link-dangling"}
            if p.claim and p.claim[0] == b:
                if c0 == p.claim or p.claim[1] == "inst":
                    self.viol(csig[p.claim[1]], **det)
            elif sinfo["links"].get(p.name) != b and c0 and c0[0] == b:
                self.viol(csig[c0[1]], **det)
            elif sinfo["links"].get(p.name) == ("during", "inst"):
                self.viol(csig["inst"], **det)
            if not p.claim and sinfo["links"].get(p.name) == b:
                if p.ws in prev_users:
                    self.viol("gc-collects-registered-linked-package", **det)
                self.viol("lost-install-race-user-never-registered" if p.last_api == ("inst", False)
                          else "linked-package-collected-registration-missing", **det)
            # taken into use while the gc held the repository lock: only the lock-free lost-race return can do that
            self.viol("lost-install-race-user-never-registered" if p.last_api == ("inst", False)
                      else "package-taken-into-use-during-gc-collected", **det)
        # automatic cleaning policy (P level, relative to what was unused during the whole gc section)
        info = self.section_info.get(proj.name)
        if info is not None:
            pn = proj.kind == "gc" and proj.params.get("pn")
            if not pn and self.quota != NOQUOTA and info["size"] <= self.quota * UNIT:
                self.viol("autoclean-removes-below-quota", b=b, size_before=info["size"], quota=self.quota * UNIT)
            older = [d for d in self.sections.get(proj.name, set())
                     if d != b and d != info["newpkg"] and d in info["recorded"] and self.read_tag(d) == info["tags"].get(d)
                     and info["age"].get(d, 1 << 62) < info["age"].get(b, 0)]
            if older:
                self.viol("autoclean-not-oldest-first", removed=b, older_unused=older)
            info["size"] -= BSIZE[b]
            self.features.add("collect-auto" if proj.kind == "inst" else "collect")

    def observe(self, full):
        obs = {"pkgs": {}, "links": self.links(), "repo": None}
        for b in BIDS:
            d = self.pkgdir(b)
            if not os.path.isdir(d):
                continue
            e = {"tag": self.read_tag(b)}
            try:
                with open(self.pkgjson(b)) as f:
                    meta = json.load(f)
                e["hash"], e["size"], e["users"] = meta.get("hash"), meta.get("size"), meta.get("users", [])
                e["mtime"] = os.stat(self.pkgjson(b)).st_mtime_ns
            except (OSError, ValueError) as ex:
                e["error"] = repr(ex)
            obs["pkgs"][b] = e
        try:
            with open(self.repo_json) as f:
                data = f.read()
            obs["repo"] = json.loads(data).get("pkgs", {}) if data else "empty"
        except OSError:
            obs["repo"] = None
        except ValueError as ex:
            obs["repo"] = "corrupt:" + repr(ex)
        return obs

    def after_anchor(self, proj, act=None):
        """all actors are parked before an anchor (or finished): full projection + state invariants"""
        obs = self.observe(full=True)
        for b, e in obs["pkgs"].items():
            if "error" in e:
                if any(q.ctx["pkg_open"] == b for q in self.projects.values()):
                    e["users"] = (self.prev or {}).get("pkgs", {}).get(b, {}).get("users", [])
                    continue      # pkg.json is being rewritten by a process that has it open
                self.viol("visible-package-incomplete", b=b, what="pkg.json " + e["error"], at=act)
            if e["tag"] is None:
                self.viol("visible-package-incomplete", b=b, what="audit trail missing", at=act)
            if e["hash"] != self.expected_hash(b).hex():
                self.viol("visible-package-hash-mismatch", b=b, recorded=e["hash"], at=act)
            if e["size"] != BSIZE[b]:
                self.viol("recorded-package-size-wrong", b=b, recorded=e["size"], actual=BSIZE[b])
            if b in self.tags and self.tags[b] != e["tag"]:
                self.viol("package-replaced-in-place", b=b, was=self.tags[b], now=e["tag"], by=proj.name)
            self.tags[b] = e["tag"]
        if isinstance(obs["repo"], str) and obs["repo"].startswith("corrupt") and \
                not any(q.ctx["repo_open"] for q in self.projects.values()):
            self.viol("repo-json-corrupt", what=obs["repo"], at=act)
        # gc sections
        if act == "G_LockRepo" and proj.ctx["repo"] == "G":
            links = obs["links"]
            self.sections[proj.name] = {b for b in BIDS if not self.p_used(b, links)}
            rec = obs["repo"] if isinstance(obs["repo"], dict) else {}
            self.section_info[proj.name] = {
                "recorded": {b for b in BIDS if BIDS[b].hex() in rec},
                "size": sum(BSIZE[b] for b in BIDS if BIDS[b].hex() in rec and b in obs["pkgs"]),
                "age": {b: e.get("mtime", 0) for b, e in obs["pkgs"].items()},
                "tags": {b: e.get("tag") for b, e in obs["pkgs"].items()},
                "claims": {q.name: q.claim for q in self.projects.values() if q.claim},
                "links": {n: l[1] for n, l in links.items() if l[0] == "link"},
                "newpkg": proj.b if proj.kind == "inst" else None}
        if act == "G_UnlockRepo" and proj.name in self.sections:
            # judged when the file is closed: the gc may be unwinding an exception
            self.section_info[proj.name]["stable_at_unlock"] = self.sections.pop(proj.name)
        if act == "G_Close" and "stable_at_unlock" in self.section_info.get(proj.name, {}):
            info = self.section_info.pop(proj.name)
            st = info["stable_at_unlock"]
            state = self.sch.state(proj.actor)
            failed = state == "failed"
            pu = proj.kind == "gc" and proj.params.get("pu")
            pn = proj.kind == "gc" and proj.params.get("pn")
            left = [d for d in st if d != info["newpkg"] and d in info["recorded"] and d in obs["pkgs"]
                    and obs["pkgs"][d].get("tag") == info["tags"].get(d)]      # (the very installation it has judged)
            if not failed and not pu and left and (pn or (self.quota != NOQUOTA and info["size"] > self.quota * UNIT)):
                self.viol("autoclean-leaves-unused-package-over-quota", left=left, size=info["size"],
                          quota=None if self.quota == NOQUOTA else self.quota * UNIT)
            if not pu and self.quota != NOQUOTA and info["size"] > self.quota * UNIT:
                self.features.add("quota-unmet-all-used")
        # operation finished?
        state = self.sch.state(proj.actor) if proj.actor else None
        if state in ("done", "failed"):
            self.finish_op(proj, state)
        self.prev = obs
        if all(not self.busy(n) for n in self.projects):
            self.check_quiescent(obs)

    def finish_op(self, proj, state):
        res, exc = self.sch.result(proj.actor)
        an = proj.actor
        proj.actor = None
        proj.claim = None
        self.sections.pop(proj.name, None)
        self.section_info.pop(proj.name, None)
        if state == "done":
            if an in self.expected_fail and proj.apilog and proj.apilog[-1][0] == "inst" and proj.apilog[-1][2]:
                self.viol("corrupt-install-not-rejected", b=proj.b, by=proj.name)
            proj.last = ("ok", res)
            return
        from bob.errors import BuildError
        text = "%s: %s" % (type(exc).__name__, exc)
        proj.last = ("error", text)
        self.failed[proj.name] = text
        if an in self.expected_fail and isinstance(exc, BuildError) and "hash changed" in str(exc):
            self.features.add("bad-hash-rejected")
            return
        tb = "".join(traceback.format_exception(type(exc), exc, exc.__traceback__))[-1500:]
        ingc = proj.kind == "gc" or "in gc" in tb
        if isinstance(exc, FileNotFoundError) and "repo.json" in str(exc) and ingc:
            sig = "gc-on-store-without-repo-json"
        elif isinstance(exc, ValueError) and "Expecting value" in str(exc):
            sig = "gc-reads-empty-repo-json" if ingc else "install-reads-empty-repo-json"
        elif isinstance(exc, BuildError) and "Corrupt meta info" in str(exc) and "Expecting value" in str(exc):
            sig = "use-reads-empty-pkg-json"
        elif isinstance(exc, BuildError) and "Error inspecting workspace" in str(exc):
            sig = "gc-fails-on-dangling-user-link" if (self.store + os.sep) in str(exc) else \
                "gc-fails-user-link-vanished-during-check"
        else:
            sig = "operation-failed:%s:%s" % (proj.kind, type(exc).__name__)
        self.viol(sig, project=proj.name, op=proj.kind, b=proj.b, params=proj.params, error=text, tb=tb)

    def check_quiescent(self, obs):
        repo = obs["repo"]
        want = {BIDS[b].hex(): BSIZE[b] for b in obs["pkgs"]}
        if not self.failed:
            if repo is None or repo == "empty":
                if want:
                    self.viol("size-accounting-mismatch", recorded=repo, installed=want)
            elif repo != want:
                self.viol("size-accounting-mismatch", recorded=repo, installed=want)
        # all locks released (another open file description must get them at once)
        import fcntl
        for f in [self.repo_json] + [self.pkgjson(b) for b in obs["pkgs"]]:
            try:
                fd = os.open(f, os.O_RDONLY)
            except OSError:
                continue
            try:
                fcntl.flock(fd, fcntl.LOCK_EX | fcntl.LOCK_NB)
            except OSError:
                self.viol("lock-held-at-quiescence", file=os.path.relpath(f, self.root))
            finally:
                os.close(fd)
        self.features.add("quiescent-check")

    def final_check(self):
        obs = self.observe(full=True)
        for name, (k, b, t) in obs["links"].items():
            if k == "link" and not os.path.exists(t) and not self.projects[name].stale:
                self.viol("dangling-workspace-link", project=name, b=b)
        try:
            left = [e for e in os.listdir(self.store) if e.startswith("tmp")]
        except OSError:
            left = []
        if left and not self.failed:
            self.viol("temporary-directory-left-in-store", left=left)
        # probe: whatever happened before, an unforced `bob clean --shared --all-unused` of yet another project
        # must not collect a package that a workspace links to
        linked = {n: b for n, (k, b, t) in obs["links"].items()
                  if k == "link" and b and os.path.exists(t) and not self.projects[n].stale}
        if linked and not self.failed:
            self.ip.enabled = False
            # a linked project that is missing in the usage record of its package: the users of the other
            # projects delete their workspaces (so that nothing else keeps the package), then the probe runs
            missing = [n for n, b in sorted(linked.items())
                       if self.projects[n].ws not in obs["pkgs"].get(b, {}).get("users", [])]
            if missing:
                for n in linked:
                    if n != missing[0]:
                        os.unlink(self.projects[n].ws)
                linked = {missing[0]: linked[missing[0]]}
                self.features.add("final-probe-unregistered")
            try:
                self.bshare.LocalShare({"path": self.store}).gc(False, True)
            except Exception as e:
                from bob.errors import BuildError
                if isinstance(e, BuildError) and "Error inspecting workspace" in str(e) and (self.store + os.sep) in str(e):
                    self.viol("gc-fails-on-dangling-user-link", error=str(e), by="probe")
                self.viol("operation-failed:gc:" + type(e).__name__, error=str(e), by="probe")
            finally:
                self.ip.enabled = True
            self.features.add("final-probe-gc")
            for n, b in sorted(linked.items()):
                if not os.path.isdir(self.pkgdir(b)):
                    p = self.projects[n]
                    users = obs["pkgs"].get(b, {}).get("users", [])
                    self.viol("lost-install-race-user-never-registered" if p.last_api == ("inst", False)
                              else "linked-package-collected-registration-missing",
                              b=b, collector="probe", victim=n, users=users, last_api=p.last_api)


BSIZE = {b: len(CONTENT[b]) for b in BIDS}


# ---------------------------------------------------------------------------------------------
# replay of a TLC behaviour

def op_args(entry):
    a, x = entry["a"], entry["x"]
    if a == "StartUse":
        return "use", {"b": x}
    if a == "StartInst":
        return "inst", {"b": x[0], "mv": x[1], "bad": x[2]}
    if a == "StartGc":
        return "gc", {"pu": x[0], "pn": x[1]}
    raise ValueError(a)


def finish_free(world, rng):
    """run everything that is still in progress to completion in a seed-determined order"""
    for _ in range(20000):
        busy = sorted(n for n in world.projects if world.busy(n))
        if not busy:
            return
        rng.shuffle(busy)
        for n in busy:
            r, _ = world.step_anchor(n)
            if r != "blocked":
                break
        else:
            world.viol("deadlock", waiting=busy)
    raise RuntimeError("actors do not terminate")


def replay(hist, seed, root):
    """Follow one TLC behaviour on the real code. Returns a result dict."""
    init = hist[0]
    quota = init.get("quota", NOQUOTA) if init["x"] == "pop" else hist[0].get("quota", NOQUOTA)
    res = {"violations": [], "drift": [], "features": [], "anchors": 0, "raw": 0, "followed": 0}
    trace = []
    world = World(root, quota, trace)
    rng = random.Random(seed)
    try:
        world.setup(init)
        try:
            for i, e in enumerate(hist[1:]):
                a, p = e["a"], e["p"]
                if a.startswith("Start"):
                    kind, kw = op_args(e)
                    world.start(p, kind, **kw)
                elif a == "Unlink":
                    world.unlink(p)
                else:
                    if a in ("G_OpenRepo",) and not world.busy(p) and getattr(world.projects.get(p), "last", ("", ""))[0] == "ok":
                        continue      # a gc that looks for repo.json before anything else has already returned
                    r, _ = world.step_anchor(p, expect=a)
                    if r == "blocked":
                        raise Drift("%s: model takes %s, the real lock is not available" % (p, a))
                    x = e.get("x")
                    last = getattr(world.projects[p], "last", None)
                    if x == "error" and not world.busy(p) and last and last[0] != "error":
                        raise Drift("%s: model expects the operation to fail at %s, the code returned %r" % (p, a, last[1]))
                res["followed"] = i + 1
        except Drift as d:
            res["drift"].append(str(d))
        finish_free(world, rng)
        world.final_check()
    except Violation as v:
        res["violations"].append((v.sig, v.detail))
    except Drift as d:
        res["drift"].append(str(d))
    finally:
        world.close()
    res["features"] = sorted(world.features)
    res["anchors"], res["raw"] = world.anchors, world.raw_ops
    return res


# ---------------------------------------------------------------------------------------------
# seed-driven random programs and schedules over the same actors

def random_run(seed, root, nproj=3, nops=2):
    rng = random.Random(seed)
    names = ["A", "B", "C"][:nproj]
    quota = rng.choice([0, 1, 2, 3, NOQUOTA])
    bl = sorted(BIDS)
    kind = rng.choice(["nodir", "emptydir", "pop", "pop", "pop"])
    init = {"a": "Init", "p": "-", "x": kind, "quota": quota}
    if kind == "pop":
        S = [b for b in bl if rng.random() < 0.7]
        rng.shuffle(S)
        od = list(S)
        rng.shuffle(od)
        users = {}
        for b in S:
            u = [n for n in names if rng.random() < 0.5]
            rng.shuffle(u)
            users[b] = u
        ws = {}
        for n in names:
            mine = [b for b in S if n in users[b]]
            ws[n] = ["link", rng.choice(mine)] if mine and rng.random() < 0.6 else ["none"]
        init.update({"repo": S, "order": od, "users": users, "ws": ws})
    progs = {}
    for n in names:
        ops = []
        for _ in range(rng.randint(1, nops)):
            k = rng.random()
            if k < 0.35:
                ops.append(("use", {"b": rng.choice(bl)}))
            elif k < 0.70:
                ops.append(("inst", {"b": rng.choice(bl), "mv": rng.random() < 0.7, "bad": rng.random() < 0.12}))
            else:
                pu = quota != NOQUOTA and rng.random() < 0.15
                pn = True if quota == NOQUOTA else rng.random() < 0.5
                ops.append(("gc", {"pu": pu, "pn": pn}))
        progs[n] = ops
    res = {"violations": [], "drift": [], "features": [], "anchors": 0, "raw": 0, "program": {"init": init, "progs": progs}}
    trace = []
    world = World(root, quota, trace)
    try:
        world.setup(init)
        for n in names:
            world.project(n)
        for _ in range(20000):
            busy = sorted(n for n in names if world.busy(n))
            startable = [n for n in names if not world.busy(n) and progs[n]]
            if not busy and not startable:
                break
            n = rng.choice(busy + startable)
            if n in startable:
                kind_, kw = progs[n][0]
                if kind_ == "inst" and os.path.islink(world.projects[n].ws):
                    kind_, kw = "use", {"b": kw["b"]}     # the builder tries the shared package first
                progs[n].pop(0)
                world.start(n, kind_, **kw)
                continue
            burst = 1 if rng.random() < 0.5 else rng.randint(2, 12)
            for _ in range(burst):
                if not world.busy(n):
                    break
                r, _ = world.step_anchor(n)
                if r == "blocked":
                    others = [m for m in busy if m != n]
                    prog = False
                    for m in others:
                        r2, _ = world.step_anchor(m)
                        if r2 != "blocked":
                            prog = True
                            break
                    if not prog and not startable:
                        world.viol("deadlock", waiting=busy)
                    break
        else:
            raise RuntimeError("random run does not terminate")
        world.final_check()
    except Violation as v:
        res["violations"].append((v.sig, v.detail))
    except Drift as d:
        res["drift"].append(str(d))
    finally:
        world.close()
    res["features"] = sorted(world.features)
    res["anchors"], res["raw"] = world.anchors, world.raw_ops
    return res


# ---------------------------------------------------------------------------------------------
# systematic schedules: every interleaving with at most two preemptions of a pair of operations, independent of
# the mechanism model (reaches schedules a weakened lock protocol allows and the model forbids)

def _pop(repo, users=None, ws=None, quota=NOQUOTA, order=None):
    return {"a": "Init", "p": "-", "x": "pop", "quota": quota, "repo": repo, "order": order or repo,
            "users": users or {b: [] for b in repo}, "ws": ws or {"A": ["none"], "B": ["none"]}}


def _use(b):
    return ("use", {"b": b})


def _inst(b, mv=True, bad=False):
    return ("inst", {"b": b, "mv": mv, "bad": bad})


def _gc(pu=False, pn=True):
    return ("gc", {"pu": pu, "pn": pn})


EMPTY = {"a": "Init", "p": "-", "x": "emptydir", "quota": NOQUOTA}
PAIRS = [
    ("use-use", _pop(["b1"]), _use("b1"), _use("b1")),
    ("use-gc", _pop(["b1"]), _use("b1"), _gc()),
    ("use-use-registered", _pop(["b1"], {"b1": ["A", "B"]}), _use("b1"), _use("b1")),
    ("lostinst-gc", _pop(["b1"]), _inst("b1"), _gc()),
    ("use-inst", _pop(["b1"]), _use("b1"), _inst("b2")),
    ("inst-inst-same", EMPTY, _inst("b1"), _inst("b1")),
    ("inst-inst-other", EMPTY, _inst("b1"), _inst("b2")),
    ("inst-gc", EMPTY, _inst("b1"), _gc()),
    ("inst-use", EMPTY, _inst("b1"), _use("b1")),
    ("badinst-use", EMPTY, _inst("b1", bad=True), _use("b1")),
    ("copyinst-gc", _pop([]), _inst("b1", mv=False), _gc()),
    ("gc-gc", _pop(["b1", "b2"]), _gc(), _gc()),
    ("gc-gc-quota", _pop(["b1", "b2"], quota=2), _gc(pn=False), _gc(pn=False)),
    ("autoclean-use", _pop(["b1"], quota=2), _inst("b2"), _use("b1")),
    ("autoclean-gc", _pop(["b1"], quota=2), _inst("b2"), _gc(pn=False)),
    ("autoclean-autoclean", _pop([], quota=1), _inst("b1"), _inst("b2")),
    ("switch-gc", _pop(["b1", "b2"], {"b1": ["A"], "b2": []}, {"A": ["link", "b1"], "B": ["none"]}), _use("b2"), _gc()),
    ("forcedgc-use", _pop(["b1"], {"b1": ["A"]}, {"A": ["link", "b1"], "B": ["none"]}, quota=0), _gc(pu=True, pn=False), _use("b1")),
]
SYS_BOUND = 16


def systematic_run(pair, i, j, root):
    name, init, opa, opb = PAIRS[pair]
    res = {"violations": [], "drift": [], "features": [], "anchors": 0, "raw": 0, "redundant": False,
           "program": {"pair": name, "switch_after": [i, j]}}
    world = World(root, init.get("quota", NOQUOTA), [])
    try:
        world.setup(init)
        world.project("A")
        world.project("B")

        def run(n, limit):
            """up to `limit` anchors of n; returns anchors done, or None when blocked"""
            k = 0
            while world.busy(n) and (limit is None or k < limit):
                r, _ = world.step_anchor(n)
                if r == "blocked":
                    return k, True
                k += 1
            return k, False
        world.start("A", opa[0], **opa[1])
        ka, blocked = run("A", i)
        if ka < i and not blocked:
            res["redundant"] = True        # A finished before the switch point: same as a smaller i
        world.start("B", opb[0], **opb[1])
        kb, blocked_b = run("B", j)
        res["redundant"] = False
        # then A to the end, then B to the end; a blocked actor yields to the other one
        for _ in range(200):
            if not world.busy("A") and not world.busy("B"):
                break
            prog = False
            for n in ("A", "B"):
                k, bl = run(n, None)
                prog = prog or k > 0
            if not prog:
                world.viol("deadlock", waiting=[n for n in ("A", "B") if world.busy(n)])
        world.final_check()
    except Violation as v:
        res["violations"].append((v.sig, v.detail))
    except Drift as d:
        res["drift"].append(str(d))
    finally:
        world.close()
    res["features"] = sorted(world.features)
    res["anchors"], res["raw"] = world.anchors, world.raw_ops
    return res


def pair_lengths(pair):
    """number of anchors of A alone, and of B alone (before / after A), measured on the real code"""
    name, init, opa, opb = PAIRS[pair]
    out = []
    for order in (("A", "B"), ("B", "A")):
        root = common.scratch("vf-c15l-")
        world = World(root, init.get("quota", NOQUOTA), [])
        lens = {}
        try:
            world.setup(init)
            for n in order:
                op = opa if n == "A" else opb
                k = 0
                try:
                    world.start(n, op[0], **op[1])
                    while world.busy(n) and k < 60:
                        r, _ = world.step_anchor(n)
                        if r == "blocked":      # (the other operation died holding a lock: seeded defect)
                            break
                        k += 1
                except (Violation, Drift):
                    pass
                lens[n] = k
        except (Violation, Drift):
            pass
        finally:
            world.close()
            shutil.rmtree(root, ignore_errors=True)
        out.append(lens)
    na = max(o.get("A", 0) for o in out)
    nb = max(o.get("B", 0) for o in out)
    return na, nb


def _task(arg):
    kind, i, payload, seed = arg
    common.use_repo()
    root = common.scratch("vf-c15-")
    devnull = open(os.devnull, "w")
    olderr = sys.stderr
    sys.stderr = devnull
    try:
        if kind == "replay":
            r = replay(payload, seed * 1000003 + i, root)
        elif kind == "systematic":
            r = systematic_run(payload[0], payload[1], payload[2], root)
        else:
            r = random_run(seed * 1000003 + i, root, **payload)
    finally:
        sys.stderr = olderr
        devnull.close()
        shutil.rmtree(root, ignore_errors=True)
    r["i"], r["kind"] = i, kind
    return r


# ---------------------------------------------------------------------------------------------
# (C) real processes

def stress_worker(root, name, seed, nops, quota, q):
    """one real project process: real flock (blocking), no interposer.
    Failures whose cause is one of the defects that (B) reports deterministically under a stable signature are only
    counted (their occurrence here depends on timing); every other exception is a violation."""
    out = {"name": name, "errors": [], "ops": 0, "classified": [], "installed": 0}
    try:
        common.use_repo()
        from bob import share as bshare, builder as bbuilder, utils as butils
        from bob.errors import BuildError
        from bob.tty import DummyTUIAction
        bbuilder.BobState = _state_factory
        bbuilder.stepMessage = lambda *a, **k: None
        bbuilder.stepAction = lambda *a, **k: DummyTUIAction()
        for wn in ("warnRepoSize", "warnGcDidNotHelp"):
            getattr(bshare, wn).show = lambda *a, **k: None
        rng = random.Random(seed)
        store = os.path.join(root, "store")
        d = os.path.join(root, "proj", name, "dev", "dist", "pkg", "1")
        os.makedirs(d, exist_ok=True)
        ws, audit = os.path.join(d, "workspace"), os.path.join(d, "audit.json.gz")
        st = FakeState()
        _tl.state = st
        spec = {"path": store}
        if quota != NOQUOTA:
            spec["quota"] = quota * UNIT
        hashes = {}
        for b in BIDS:
            t = os.path.join(root, "tmpl-%s-%s" % (name, b))
            os.makedirs(t)
            with open(os.path.join(t, "result.txt"), "wb") as f:
                f.write(CONTENT[b])
            hashes[b] = butils.hashDirectory(t)
            shutil.rmtree(t)
        log = []
        for k in range(nops):
            b = rng.choice(sorted(BIDS))
            r = rng.random()
            try:
                bld = bbuilder.LocalBuilder(0, False, False, False, False, [], None, False, True)
                bld.setShareHandler(ShareRec(bshare.LocalShare(spec), log))
                bld.setShareMode(True, True)
                if r < 0.25:
                    pn = True if quota == NOQUOTA else rng.random() < 0.5
                    bshare.LocalShare(spec).gc(False, pn)
                else:
                    shared, _ = bld._useSharedPackage(StepStub(ws), BIDS[b])
                    if not shared:
                        if os.path.lexists(ws):
                            shutil.rmtree(ws)
                        if os.path.lexists(audit):
                            os.unlink(audit)
                        os.makedirs(ws)
                        with open(os.path.join(ws, "result.txt"), "wb") as f:
                            f.write(CONTENT[b])
                        with open(audit, "w") as f:
                            f.write("%s:%d" % (name, k))
                        st.resetWorkspaceState(ws, None)
                        st.setResultHash(ws, hashes[b])
                        bld._installSharedPackage(StepStub(ws), BIDS[b])
                        if log and log[-1][0] == "inst" and log[-1][2]:
                            out["installed"] += 1
                out["ops"] += 1
            except BaseException as e:   # noqa
                text = "%s: %s" % (type(e).__name__, e)
                if isinstance(e, FileNotFoundError) and "repo.json" in str(e):
                    out["classified"].append("gc-on-store-without-repo-json")
                elif isinstance(e, ValueError) and "Expecting value" in str(e):
                    out["classified"].append("repo-json-creation-window")
                elif isinstance(e, BuildError) and "Corrupt meta info" in str(e) and "Expecting value" in str(e):
                    out["classified"].append("use-reads-empty-pkg-json")
                elif isinstance(e, BuildError) and "Error inspecting workspace" in str(e):
                    out["classified"].append("gc-fails-user-link-vanished-during-check"
                                             if (os.sep + "proj" + os.sep) in str(e) else "gc-fails-on-dangling-user-link")
                else:
                    out["errors"].append(text + "\n" + traceback.format_exc()[-1200:])
    except BaseException as e:  # noqa
        out["errors"].append("worker: %r\n%s" % (e, traceback.format_exc()[-1200:]))
    q.put(out)


class _TraceWorld(World):
    """paths + anchor map (World.classify/_track) for ONE real process of a traced round: no scheduler, no oracle"""

    def __init__(self, root, names):       # noqa  (World.__init__ installs the deterministic scheduler: not here)
        self.root = root
        self.store = os.path.join(root, "store")
        self.repo_json = os.path.join(self.store, "repo.json")
        self.projects = {n: Project(self, n) for n in names}


def trace_worker(root, name, names, seed, nops, quota, q, barrier=None):
    """one real project process like stress_worker (real blocking flock), with the recorder of checks/c15_trace.py
    hooked into bob.share / bob.builder of THIS process: one event per SharedStore action, see there."""
    out = {"name": name, "errors": [], "ops": 0, "classified": [], "installed": 0}
    try:
        common.use_repo()
        from bob import share as bshare, builder as bbuilder, utils as butils
        from bob.tty import DummyTUIAction
        tw = _TraceWorld(root, names)
        proj = tw.projects[name]
        os.makedirs(proj.dir, exist_ok=True)
        seqr = c15_trace.Sequencer(root, name)
        rec = c15_trace.Recorder(tw, proj, seqr, UNIT)
        ip = fsint.Interposer(hook=rec.hook, record_reads=True)

        def remove_path(p):
            return ip._op("removePath", (os.path.normpath(p),), lambda: butils.removePath(p))
        ip.install(bshare)
        ip.install(bbuilder, extra={"BobState": _state_factory, "removePath": remove_path,
                                    "stepMessage": lambda *a, **k: None,
                                    "stepAction": lambda *a, **k: DummyTUIAction()})
        for wn in ("warnRepoSize", "warnGcDidNotHelp"):
            getattr(bshare, wn).show = lambda *a, **k: None
        rng = random.Random(seed)
        _tl.state = proj.state
        spec = {"path": tw.store}
        if quota != NOQUOTA:
            spec["quota"] = quota * UNIT
        hashes = {}
        for b in BIDS:
            t = os.path.join(root, "tmpl-%s-%s" % (name, b))
            os.makedirs(t)
            with open(os.path.join(t, "result.txt"), "wb") as f:
                f.write(CONTENT[b])
            hashes[b] = butils.hashDirectory(t)
            shutil.rmtree(t)

        def begin(kind, b=None, **params):
            proj.reset_op()
            proj.apilog.clear()
            proj.kind, proj.b, proj.params = kind, b, params
            rec.begin()

        def forget():
            shutil.rmtree(os.path.join(root, "proj", name), ignore_errors=True)
            os.makedirs(proj.dir, exist_ok=True)
            proj.state = FakeState()
            _tl.state = proj.state
        if barrier is not None:
            barrier.wait(120)         # all processes of the round start their loops together
        for k in range(nops):
            b = rng.choice(sorted(BIDS))
            r = rng.random()
            try:
                bld = bbuilder.LocalBuilder(0, False, False, False, False, [], None, False, True)
                bld.setShareHandler(ShareRec(bshare.LocalShare(spec), proj.apilog))
                bld.setShareMode(True, True)
                if r < 0.22:
                    pn = True if quota == NOQUOTA else rng.random() < 0.5
                    begin("gc", pu=False, pn=pn)
                    rec.mark("StartGc", pn=pn)
                    bshare.LocalShare(spec).gc(False, pn)
                elif r < 0.30 and os.path.lexists(proj.ws):
                    begin(None)
                    rec.mark("Unlink", fn=forget)         # rm -rf of the project by its user
                else:
                    begin("use", b)
                    rec.mark("StartUse", b=b)
                    shared, _ = bld._useSharedPackage(StepStub(proj.ws), BIDS[b])
                    if not shared:
                        if os.path.lexists(proj.ws):
                            shutil.rmtree(proj.ws)
                        if os.path.lexists(proj.audit):
                            os.unlink(proj.audit)
                        os.makedirs(proj.ws)
                        with open(os.path.join(proj.ws, "result.txt"), "wb") as f:
                            f.write(CONTENT[b])
                        with open(proj.audit, "w") as f:
                            f.write("%s:%d" % (name, k))
                        proj.state.resetWorkspaceState(proj.ws, None)
                        proj.state.setResultHash(proj.ws, hashes[b])
                        begin("inst", b, mv=True)
                        rec.mark("StartInst", b=b, mv=True)
                        bld._installSharedPackage(StepStub(proj.ws), BIDS[b])
                        if proj.apilog and proj.apilog[-1][0] == "inst" and proj.apilog[-1][2]:
                            out["installed"] += 1
                out["ops"] += 1
            except BaseException as e:   # noqa
                out["errors"].append("%s: %s\n%s" % (type(e).__name__, e, traceback.format_exc()[-1200:]))
        seqr.close()
    except BaseException as e:  # noqa
        out["errors"].append("worker: %r\n%s" % (e, traceback.format_exc()[-1200:]))
    q.put(out)


def _trace_setup(root, rng, quota):
    """initial store of a traced round, made through the real API by a project that disappears; returns the trace header"""
    from bob import share as bshare, utils as butils
    store = os.path.join(root, "store")
    kind = rng.choice(["emptydir", "pop", "pop", "pop"])
    S = []
    if kind == "pop":
        S = [b for b in sorted(BIDS) if rng.random() < 0.6]
        rng.shuffle(S)
        for b in S:
            d = os.path.join(root, "proj", "Z", "dist")
            ws = os.path.join(d, "workspace")
            os.makedirs(ws)
            with open(os.path.join(ws, "result.txt"), "wb") as f:
                f.write(CONTENT[b])
            with open(os.path.join(d, "audit.json.gz"), "w") as f:
                f.write("Z:" + b)
            bshare.LocalShare({"path": store}).installSharedPackage(ws, BIDS[b], butils.hashDirectory(ws), True)
            shutil.rmtree(os.path.join(root, "proj", "Z"))
        if not S:
            with open(os.path.join(store, "repo.json"), "w") as f:
                json.dump({"pkgs": {}}, f)
    order = list(S)
    rng.shuffle(order)
    for i, b in enumerate(order):
        h = BIDS[b].hex() + "-3"
        ns = c15_trace.vtime_ns(i - len(order))
        os.utime(os.path.join(store, h[0:2], h[2:4], h[4:], "pkg.json"), ns=(ns, ns))
    return {"kind": kind, "repo": S, "order": order, "quota": quota}


def _trace_end(root):
    """the real store at quiescence, as the End event of the trace"""
    tw = _TraceWorld(root, c15_trace.PROCS)
    wsm = {}
    for n, p in tw.projects.items():
        if os.path.islink(p.ws):
            wsm[n] = tw.bid_of_path(os.readlink(p.ws)) or "-"
        else:
            wsm[n] = "dir" if os.path.isdir(p.ws) else "none"
    try:
        with open(tw.repo_json) as f:
            data = f.read()
        n = len(json.loads(data).get("pkgs", {})) if data else 0
    except OSError:
        n = c15_trace.UNKNOWN
    return {"e": "End", "p": "-", "b": "-", "ws": wsm, "vis": [b for b in sorted(BIDS) if os.path.isdir(tw.pkgdir(b))], "n": n}


def stress(rep, seed, nproc, nops, rounds, traces=None):
    """traces: list -> the rounds run under the recorder (trace_worker); their event traces are appended"""
    common.use_repo()
    from bob import utils as butils
    ctx = mp.get_context("fork")
    tot = {"ops": 0, "installed": 0, "classified": {}, "dangling_links": 0, "rounds": 0}
    for rd in range(rounds):
        root = common.scratch("vf-c15s-")
        quota = [NOQUOTA, 1, 2, 3][(seed + rd) % 4]
        os.makedirs(os.path.join(root, "store"))
        q = ctx.Queue()
        if traces is None:
            # a first install by a project that goes away (the creation of repo.json is covered deterministically by (B))
            stress_worker(root, "Z", seed * 7919 + rd, 0, quota, q)
            q.get()
            _seed_store(root, quota)
            procs = [ctx.Process(target=stress_worker, args=(root, "P%d" % i, seed * 7919 + rd * 101 + i, nops, quota, q))
                     for i in range(nproc)]
        else:
            names = c15_trace.PROCS[:nproc]
            hdr = _trace_setup(root, random.Random(seed * 104729 + rd), quota)
            barrier = ctx.Barrier(nproc)
            procs = [ctx.Process(target=trace_worker,
                                 args=(root, n, names, seed * 7919 + rd * 101 + i, nops, quota, q, barrier))
                     for i, n in enumerate(names)]
        for p in procs:
            p.start()
        outs = [q.get(timeout=600) for _ in procs]
        for p in procs:
            p.join(60)
        round_classified = any(o["classified"] for o in outs)    # an operation died half way: leftovers are its consequence
        for o in outs:
            tot["ops"] += o["ops"]
            tot["installed"] += o["installed"]
            for c in o["classified"]:
                tot["classified"][c] = tot["classified"].get(c, 0) + 1
            for e in o["errors"]:
                rep.violation("stress-operation-failed:" + e.split(":")[0], {"error": e, "round": rd})
        # store invariants at quiescence
        store = os.path.join(root, "store")
        vis = {}
        for b, bid in BIDS.items():
            h = bid.hex() + "-3"
            d = os.path.join(store, h[0:2], h[2:4], h[4:])
            if os.path.isdir(d):
                try:
                    meta = json.load(open(os.path.join(d, "pkg.json")))
                    okh = butils.hashDirectory(os.path.join(d, "workspace")).hex() == meta["hash"]
                    okc = open(os.path.join(d, "workspace", "result.txt"), "rb").read() == CONTENT[b]
                    if not (okh and okc and os.path.exists(os.path.join(d, "audit.json.gz"))):
                        rep.violation("stress-visible-package-hash-mismatch", {"b": b, "round": rd})
                    vis[bid.hex()] = meta["size"]
                    if meta["size"] != BSIZE[b]:
                        rep.violation("stress-recorded-package-size-wrong", {"b": b, "round": rd})
                except (OSError, ValueError, KeyError) as e:
                    rep.violation("stress-visible-package-incomplete", {"b": b, "round": rd, "error": repr(e)})
        try:
            repo = json.load(open(os.path.join(store, "repo.json"))).get("pkgs", {})
        except FileNotFoundError:
            repo = {}             # nothing was ever installed (traced rounds may start with an empty store directory)
        except (OSError, ValueError) as e:
            repo = "unreadable: %r" % e
        if not round_classified and repo != vis:
            rep.violation("stress-size-accounting-mismatch", {"recorded": repo, "installed": vis, "round": rd})
        left = [e for e in os.listdir(store) if e.startswith("tmp")]
        if left and not round_classified:
            rep.violation("stress-temporary-directory-left-in-store", {"left": left, "round": rd})
        for i in range(nproc):
            w = os.path.join(root, "proj", "P%d" % i, "dev", "dist", "pkg", "1", "workspace")
            if os.path.islink(w) and not os.path.exists(w):
                tot["dangling_links"] += 1
        tot["rounds"] += 1
        rep.evaluations += 1
        if traces is not None:
            evs = c15_trace.merge(root, names)
            evs.append(_trace_end(root))
            traces.append({"init": hdr, "ev": evs, "round": rd, "nproc": nproc,
                           "failed": bool(round_classified or any(o["errors"] for o in outs))})
        shutil.rmtree(root, ignore_errors=True)
    return tot


def _seed_store(root, quota):
    """first installation into the stress store, done by a project that disappears afterwards"""
    from bob import share as bshare, utils as butils
    d = os.path.join(root, "proj", "Z", "dist")
    ws = os.path.join(d, "workspace")
    os.makedirs(ws)
    with open(os.path.join(ws, "result.txt"), "wb") as f:
        f.write(CONTENT["b1"])
    with open(os.path.join(d, "audit.json.gz"), "w") as f:
        f.write("Z:0")
    spec = {"path": os.path.join(root, "store")}
    bshare.LocalShare(spec).installSharedPackage(ws, BIDS["b1"], butils.hashDirectory(ws), True)
    shutil.rmtree(os.path.join(root, "proj", "Z"))


# P invariant of SharedStore violated on a validated real trace -> signature (the ones of the (B) oracle)
TRACE_SIG = {
    "NoDanglingUse": "use-then-gc-before-link-dangling",
    "NoDanglingInst": "install-then-gc-before-link-dangling",
    "NoDanglingLost": "lost-install-race-then-gc-before-link-dangling",
    "NoDanglingLinked": "gc-collects-registered-linked-package",
    "NoDanglingUnregistered": "linked-package-collected-registration-missing",
    "NoDanglingDuring": "package-taken-into-use-during-gc-collected",
    "NoGcFailEmptyStore": "gc-on-store-without-repo-json",
    "NoJsonFailureGc": "gc-reads-empty-repo-json",
    "NoJsonFailureInstall": "install-reads-empty-repo-json",
    "NoJsonFailureUse": "use-reads-empty-pkg-json",
    "NoInspectFailure": "gc-fails-user-link-vanished-during-check",
    "SizeAccounting": "size-accounting-mismatch",
    "LocksFreeAtQuiescence": "lock-held-at-quiescence",
    "NoLockDeadlock": "deadlock",
    "VisibleIsComplete": "visible-package-incomplete",
    "HashMatches": "visible-package-hash-mismatch",
    "InstalledOncePerBid": "package-replaced-in-place",
}
TRACE_SIG_POLICY = {"below-quota": "autoclean-removes-below-quota", "not-oldest": "autoclean-not-oldest-first",
                    "unused-left": "autoclean-leaves-unused-package-over-quota"}
TRACE_SIG_COLLECTED = {"inst": "install-returns-collected-package-dangling",
                       "lost": "lost-install-race-returns-collected-package-dangling",
                       "use": "use-returns-collected-package-dangling"}


def trace_signatures(trace, viol):
    """stable signatures of the P invariants that are false in state viol['at'] of the validated behaviour"""
    ev = trace["ev"][viol["at"] - 1] if 0 < viol["at"] <= len(trace["ev"]) else {}
    sigs = []
    for inv in viol["inv"]:
        if inv == "AutoCleanPolicy":
            sigs += [TRACE_SIG_POLICY.get(x, "autoclean-policy:" + x) for x in viol["polviol"]]
        elif inv == "NoDanglingLinkToCollected":
            sigs.append(TRACE_SIG_COLLECTED.get(ev.get("api"), "use-returns-collected-package-dangling"))
        else:
            sigs.append(TRACE_SIG.get(inv, "trace-invariant:" + inv))
    return sorted(set(sigs))


def validate_real_traces(rep, traces, seed, work, note):
    """(C) code -> spec: TLC (TraceSharedStore) validates the traces recorded from the real processes, evaluates every
    P invariant in every state of the matched behaviours, and demonstrates the binding on tampered copies."""
    rng = random.Random(seed * 65537 + 11)
    bases = list(range(min(2, len(traces))))
    batch = [{"init": t["init"], "ev": t["ev"]} for t in traces]
    tampered = []                 # (index in batch, base, kind, what)
    for i in bases:
        for kind, fn in (("corrupt-field", c15_trace.corrupt_field), ("drop-event", c15_trace.drop_event)):
            t2, what = fn(batch[i], rng)
            tampered.append((len(batch), i, kind, what))
            batch.append(t2)
    res, ver = c15_trace.validate(batch, work, timeout=3000)
    rep.add_tlc(res, "TraceSharedStore: %d real multi-process traces + %d tampered copies" % (len(traces), len(tampered)))
    info = {"traces": len(traces), "events": sum(len(t["ev"]) for t in traces), "accepted": 0, "rejected": 0,
            "p_violations_on_validated_traces": {}, "tlc_wall_s": round(res.wall, 1),
            "actions_seen": sorted({e["e"] for t in traces for e in t["ev"]})}
    for i, t in enumerate(traces):
        v = ver[i]
        rep.nontriv("trace-init:%s:%d" % (t["init"]["kind"], len(t["init"]["repo"])))
        if v["viol"]:
            # P is false in a state of the behaviour that the real events have been matched to
            for sig in trace_signatures(t, v["viol"]):
                info["p_violations_on_validated_traces"][sig] = info["p_violations_on_validated_traces"].get(sig, 0) + 1
                rep.nontriv("violation:" + sig)
                note(sig, {"found_by": "trace validation (TraceSharedStore) of a real multi-process run", "init": t["init"],
                           "invariants": v["viol"]["inv"], "dangling": v["viol"]["dangling"], "err": v["viol"]["err"],
                           "polviol": v["viol"]["polviol"], "state": v["viol"]["at"],
                           "events": t["ev"][max(0, v["viol"]["at"] - 40):v["viol"]["at"]]})
        if v["accepted"]:
            info["accepted"] += 1
            rep.traces += 1
            if i < 2:
                rep.sample({"real_trace": "round %d, %d processes, %d events, accepted" % (t["round"], t["nproc"], len(t["ev"])),
                            "init": t["init"], "first_events": [(e["e"], e["p"], e["b"]) for e in t["ev"][:12]]})
        else:
            info["rejected"] += 1
            e = t["ev"][v["matched"]]
            if not v["viol"]:
                rep.model_drift("real-process trace (round %d%s): TraceSharedStore rejects event %d %s"
                                % (t["round"], ", an operation failed" if t["failed"] else "", v["matched"] + 1,
                                   json.dumps(e, sort_keys=True)))
            info.setdefault("first_rejection", {"round": t["round"], "event_index": v["matched"] + 1, "event": e,
                                                "before": t["ev"][max(0, v["matched"] - 8):v["matched"]]})
    # binding self-test: a tampered copy of an accepted trace must be rejected
    st = []
    for bi, base, kind, what in tampered:
        if not ver[base]["accepted"]:
            continue
        v = ver[bi]
        st.append({"base_round": traces[base]["round"], "tamper": kind, "what": what, "rejected_at_event": v["matched"] + 1,
                   "rejected": not v["accepted"]})
        if v["accepted"]:
            raise RuntimeError("trace validation self-test: TraceSharedStore accepts a tampered trace (%s %r of round %d)"
                               % (kind, what, traces[base]["round"]))
    info["selftest"] = st if st else "no accepted base trace: binding self-test not possible in this run"
    for x in st[:2]:
        rep.sample({"trace_validation_selftest": x})
    rep.extra["trace_validation"] = info
    return info


# ---------------------------------------------------------------------------------------------
# TLC plumbing

def derive_cfg(base, weak, work, invariants=None, name=None, extra=None):
    """scratch copy of specs/<base> with the Weak set (and optionally the invariants) replaced"""
    with open(os.path.join(tlc.SPECS, base)) as f:
        text = f.read()
    ws = "{" + ", ".join('"%s"' % w for w in weak) + "}"
    text, n = re.subn(r"(?m)^CONSTANT\s+Weak\s*=.*$", "CONSTANT Weak = " + ws, text)
    if n != 1:
        raise tlc.TlcError("no Weak line in " + base)
    if invariants is not None:
        text = re.sub(r"(?m)^INVARIANT .*\n", "", text)
        text += "".join("INVARIANT %s\n" % i for i in invariants)
    if extra:
        text += extra
    path = os.path.join(work, name or ("w-" + base))
    with open(path, "w") as f:
        f.write(text)
    return path


def coverage_of(res):
    """action -> number of states generated by it (vf.tlc's pattern misses the headers of actions with a LET,
    which TLC prints with an extra location tuple)"""
    cov = {}
    for m in re.finditer(r"^<(\w+) line \d+, col \d+ to line \d+, col \d+ of module SharedStore(?: \([\d ]+\))?>: (\d+):(\d+)",
                         res.out, re.M):
        cov[m.group(1)] = cov.get(m.group(1), 0) + int(m.group(3))
    return cov


def dedupe(hists):
    seen, out = set(), []
    for h in hists:
        k = json.dumps(h, sort_keys=True)
        if k not in seen:
            seen.add(k)
            out.append(h)
    return out


def replay_file(path):
    """bin/check C15 --replay evidence/replay/C15-N.json : run the recorded behaviour / schedule again, verbosely"""
    common.use_repo()
    with open(path) as f:
        d = json.load(f)["detail"]
    root = common.scratch("vf-c15r-")
    if "program" in d and "pair" in d["program"]:
        pi = [i for i, p in enumerate(PAIRS) if p[0] == d["program"]["pair"]][0]
        r = systematic_run(pi, d["program"]["switch_after"][0], d["program"]["switch_after"][1], root)
    elif "program" in d and "random_index" in d:
        print("random run: use --seed %s and index %s" % (d.get("seed"), d["random_index"]))
        return 0
    else:
        h = d.get("behaviour") or d.get("model_counterexample")
        if not h:
            print("nothing to replay in", path)
            return 0
        r = replay(h, 0, root)
    for s, det in r["violations"]:
        print("signature:", s)
        print("detail:", json.dumps({k: v for k, v in det.items() if k != "trace"}, default=str)[:2000])
        for t in det.get("trace", []):
            print("   ", t)
    print("drift:", r["drift"])
    return 1 if r["violations"] else 0


def main():
    a = common.args(PROP)
    if a.replay:
        return replay_file(a.replay)
    rep = evidence.Report(PROP, a.tier, a.seed)
    quick = a.tier == "quick"
    rep.rule = ("behaviours = maximal behaviours of SharedStore.tla (TLC -simulate of the current-code model + shortest "
                "counterexamples per weakness) followed on real LocalShare/LocalBuilder actors lock-op by lock-op, plus "
                "seed-driven random schedules; evaluations = real operations after each of which the store was projected "
                "and the P invariants evaluated; non-trivial = distinct (feature, outcome) classes reached on the real code")
    rep.assumptions = [
        "BobState is a per-process singleton bound to the cwd; the real LocalBuilder._useSharedPackage/_installSharedPackage "
        "run with an in-memory per-project stand-in for it (same getters/setters), UI output functions stubbed",
        "flock, rename, symlink, mkdir are atomic; no crashes (kill -9) of share operations are considered",
        "operations private to a process (temporary directory, reads/writes under the respective lock) are not interleaved "
        "separately: an actor runs from one lock / visible fs operation to the next",
        "pkg.json ages: every write/touch gets the next tick of a virtual clock (kernel timestamp granularity is coarser than "
        "the replay); 'oldest first' is judged on that order",
        "gc --used (pruneUsed) without a configured quota is outside the domain (it raises TypeError in share.py:349 "
        "independently of concurrency; reported separately)",
        "a build-id determines the content: all projects produce the same content for the same build-id",
        "(C) trace validation: the recorder makes every single anchor operation (not whole operations) of the real "
        "processes atomic with the write of its event through a global flock on a counter file; lock acquisitions are "
        "logged after the real blocking flock returned, releases before the real unlock; the order is the sequence "
        "number, never time; pkg.json ages are set to a virtual time derived from the sequence number of the event "
        "that wrote/touched the file (under the package lock); a project that seeded the store (Z) has been deleted",
    ]
    common.use_repo()
    import bob.share  # noqa: F401  (before fork)
    import bob.builder  # noqa: F401
    work = common.scratch("vf-c15cfg-")
    # (actors that are still parked when a behaviour ends stay behind as blocked daemon threads: recycle the workers)
    pool = mp.get_context("fork").Pool(NW, maxtasksperchild=20)
    sigs = {}                    # signature -> [count, first detail]

    def note(sig, detail):
        if sig in sigs:
            sigs[sig][0] += 1
        else:
            sigs[sig] = [1, detail]

    def run_pool(tasks, count_drift=True):
        out = []
        for r in pool.imap_unordered(_task, tasks, chunksize=2):
            rep.traces += 1
            rep.evaluations += r["raw"]
            for f in r["features"]:
                rep.nontriv(f)
            for d in r["drift"]:
                if count_drift:
                    rep.model_drift("%s %d: %s" % (r["kind"], r["i"], d))
                else:
                    rep.extra.setdefault("counterexample_replay_drift", []).append(d[:300])
            for sig, detail in r["violations"]:
                rep.nontriv("violation:" + sig)
            out.append(r)
        return out

    try:
        # (A1) per weakness: shortest counterexample on the model of the code as it was read, replayed on the real code
        jobs = []
        for w, lst in WEAK_CEX.items():
            for inv, sig, off in lst:
                jobs.append((w, inv, sig, off))

        def cex_run(job):
            w, inv, sig, off = job
            # weakness still in the code: counterexample of the model of the code; repaired weakness: counterexample of
            # the model of the code as it was before the repairs (replayed as a regression test)
            weak = CODE_WEAK if w in CODE_WEAK else [x for x in ALL_WEAK if x not in off]
            cfg = derive_cfg("SharedStore_weak_%s.cfg" % inv, weak, work, name="cex-%s.cfg" % inv)
            return job, tlc.run("SharedStore", cfg, workers=2, timeout=3000)
        with ThreadPoolExecutor(max(1, NW // 4)) as ex:
            cex_results = list(ex.map(cex_run, jobs))
        present = set()
        cex_report = {}
        for (w, inv, sig, off), res in cex_results:
            rep.add_tlc(res, "%s model, %s" % ("current-code" if w in CODE_WEAK else "pre-repair", inv))
            if res.violated != "Cex" + inv or not res.printed:
                raise tlc.TlcError("vacuity: the weakened model does not violate %s" % inv)
            hists = dedupe([p["hist"] for p in res.printed if p.get("cex") == inv])
            hists.sort(key=len)
            hists = hists[:3]
            rs = run_pool([("replay", i, h, a.seed) for i, h in enumerate(hists)], count_drift=False)
            got = [s for r in rs for (s, _) in r["violations"]]
            cex_report[inv] = {"model_cex_len": len(hists[0]), "replayed": len(hists), "real_signatures": sorted(set(got))}
            if sig in got:
                present.add(w)
                for r in rs:
                    for s, d in r["violations"]:
                        if s == sig:
                            d = dict(d, model_counterexample=hists[r["i"]], weakness=w, invariant=inv)
                            note(s, d)
                rep.sample({"weakness": w, "invariant": inv, "signature": sig, "model_counterexample":
                            [(e["a"], e["p"]) for e in hists[0][1:]]})
            else:
                for r in rs:
                    for s, d in r["violations"]:
                        note(s, d)
        rep.extra["weaknesses_confirmed_on_code"] = sorted(present)
        rep.extra["weakness_counterexamples"] = cex_report
        codeweak = list(CODE_WEAK)
        for w in CODE_WEAK:
            if w not in present:
                rep.model_drift("weakness %s of the code model: its counterexample does not violate P on the real code" % w)
        rep.extra["repaired_weaknesses_reappeared"] = sorted(present - set(CODE_WEAK))
        broken = set()
        for w in codeweak:
            broken |= WEAK_BREAKS[w]

        # (A2) exhaustive: repaired protocol satisfies all of P; current-code protocol satisfies the rest of P
        base = "SharedStore.cfg" if quick else "SharedStore_thorough.cfg"
        keep = [i for i in P_INVARIANTS if i not in broken]

        def run_fixed():
            return tlc.run("SharedStore", base, workers=max(1, NW // 2), coverage=True, timeout=20000)

        def run_cur():
            cfg = derive_cfg(base, codeweak, work, invariants=keep, name="cur-" + base)
            return tlc.run("SharedStore", cfg, workers=max(1, NW // 2), coverage=True, timeout=20000)

        def run_more():
            out = []
            for b2 in (["SharedStore_policy.cfg"] if quick else ["SharedStore_policy.cfg", "SharedStore_thorough3.cfg"]):
                cfg = derive_cfg(b2, codeweak, work, invariants=keep, name="cur-" + b2)
                out.append((b2, tlc.run("SharedStore", cfg, workers=max(1, NW // 4), coverage=True, timeout=20000)))
            return out

        def run_reach(inv):
            cfg = derive_cfg("SharedStore_reach_%s.cfg" % inv, codeweak, work)
            return inv, tlc.run("SharedStore", cfg, workers=2, timeout=6000)

        def run_gen(part=0):
            cfg = derive_cfg("SharedStore_gen.cfg", codeweak, work)
            num = 700 if quick else 3000
            return tlc.run("SharedStore", cfg, workers=1, simulate="num=%d" % num, depth=400,
                           seed=a.seed * 10 + 1 + part, timeout=15000)
        with ThreadPoolExecutor(max(2, NW // 4) if quick else max(4, NW // 2)) as ex:
            f_gens = [ex.submit(run_gen, k) for k in range(1 if quick else 4)]
            f_fixed = ex.submit(run_fixed)
            f_cur = ex.submit(run_cur)
            f_more = ex.submit(run_more)
            f_reach = [ex.submit(run_reach, inv) for inv in REACH]
            gens = [f.result() for f in f_gens]
            printed = [h for g in gens for h in g.printed]
            hists = dedupe(printed)
            rep.extra["behaviours_generated"] = len(printed)
            rep.extra["behaviours_distinct"] = len(hists)
            if len(hists) < 50:
                raise tlc.TlcError("behaviour generation produced only %d behaviours" % len(hists))
            # (B) replay while the exhaustive runs are still going
            t0 = time.time()
            rs = run_pool([("replay", i, h, a.seed) for i, h in enumerate(hists)])
            for r in rs:
                for s, d in r["violations"]:
                    note(s, dict(d, behaviour=hists[r["i"]]))
                if r["i"] < 2:
                    rep.sample({"behaviour": [(e["a"], e["p"], e.get("x")) for e in hists[r["i"]][1:]],
                                "followed": r["followed"], "real_ops": r["raw"]})
            rep.extra["replay_wall_s"] = round(time.time() - t0, 1)
            rep.extra["replay_model_steps_followed"] = sum(r["followed"] for r in rs)
            # systematic schedules (at most two preemptions) of pairs of operations
            t0 = time.time()
            stasks = []
            for pi in range(len(PAIRS)):
                na, nb = pair_lengths(pi)
                for i in range(0, na + 1):
                    for j in range(0, nb + 2):
                        stasks.append(("systematic", len(stasks), (pi, i, j if j <= nb else 99), a.seed))
            rsys = run_pool(stasks)
            for r in rsys:
                for s, d in r["violations"]:
                    note(s, dict(d, program=r["program"]))
            rep.extra["systematic_runs"] = len(stasks)
            rep.extra["systematic_wall_s"] = round(time.time() - t0, 1)
            # seed-driven random programs/schedules
            nrand = 600 if quick else 12000
            t0 = time.time()
            rr = run_pool([("random", i, {"nproj": 2 + (i % 2), "nops": 2}, a.seed) for i in range(nrand)])
            for r in rr:
                for s, d in r["violations"]:
                    note(s, dict(d, program=r["program"], random_index=r["i"]))
            rep.extra["random_runs"] = nrand
            rep.extra["random_wall_s"] = round(time.time() - t0, 1)
            fixed = f_fixed.result()
            cur = f_cur.result()
            more = f_more.result()
            reach = [f.result() for f in f_reach]
        rep.add_tlc(fixed, "repaired protocol (Weak = {}), all P invariants, " + base)
        rep.add_tlc(cur, "protocol of the code (Weak = %s), P minus %s, %s" % (codeweak, sorted(broken), base))
        if fixed.violated:
            raise tlc.TlcError("the repaired protocol violates %s:\n%s" % (fixed.violated, fixed.out[-3000:]))
        if cur.violated:
            rep.violation("model:" + cur.violated, {"cex": cur.cex, "weak": codeweak})
        for b2, r2 in more:
            rep.add_tlc(r2, "protocol of the code (Weak = %s), P minus %s, %s" % (codeweak, sorted(broken), b2))
            if r2.violated:
                rep.violation("model:" + r2.violated, {"cex": r2.cex, "weak": codeweak, "config": b2})
        cov = {}
        for r2 in [cur, fixed] + [r for _, r in more]:
            for k, v in coverage_of(r2).items():
                cov[k] = cov.get(k, 0) + v
        rep.extra["action_coverage"] = {x: cov.get(x, 0) for x in ACTIONS}
        missing = [x for x in ACTIONS if cov.get(x, 0) == 0]
        if missing:
            raise tlc.TlcError("vacuity: actions never taken %s" % missing)
        for inv, r2 in reach:
            rep.add_tlc(r2, "reach " + inv)
            if r2.violated != inv:
                raise tlc.TlcError("vacuity: %s not reachable" % inv)

        # (C) real processes
        if not quick:
            t0 = time.time()
            st = stress(rep, a.seed, nproc=6, nops=40, rounds=8)
            st["wall_s"] = round(time.time() - t0, 1)
            rep.extra["stress"] = st
        # (C) real processes under the recorder, traces validated by TraceSharedStore (code -> spec)
        t0 = time.time()
        rtraces = []
        if quick:
            st = stress(rep, a.seed, nproc=3, nops=5, rounds=8, traces=rtraces)
        else:
            st = stress(rep, a.seed, nproc=3, nops=6, rounds=30, traces=rtraces)
            st2 = stress(rep, a.seed + 1, nproc=4, nops=8, rounds=30, traces=rtraces)
            for k in ("ops", "installed", "dangling_links", "rounds"):
                st[k] += st2[k]
        st["wall_s"] = round(time.time() - t0, 1)
        rep.extra["traced_stress"] = st
        validate_real_traces(rep, rtraces, a.seed, work, note)
    finally:
        pool.terminate()
        pool.join()
    for sig in sorted(sigs):
        n, detail = sigs[sig]
        detail = dict(detail, occurrences=n)
        rep.violation(sig, detail)
    rep.extra["violation_signatures"] = {s: sigs[s][0] for s in sorted(sigs)}
    if rep.drift:
        rep.level = "exploration"
    return rep.finish()


if __name__ == "__main__":
    evidence.main_wrapper(main)
