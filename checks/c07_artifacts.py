"""C07  Binary artifacts are reused exactly when they are the right ones.

(A) TLC checks specs/BobArtifacts.tla exhaustively: two workspaces with independently edited
    project states (scripts, variable, dependency sources, host fingerprint) sharing one archive,
    every download mode, upload on/off: DownloadEqLocal, FullReuse, ArchiveSound, NeverOverwrite.
(B) Behaviours (counterexamples of weakened build-id / download mechanisms + -simulate runs) are
    replayed with two REAL workspaces at different absolute paths, a real `file` archive and real
    `bob dev --download MODE [--upload]` runs; host fingerprints are emulated by a
    fingerprintScript that prints a harness-controlled file.
Oracles (P): dist tree of the built root == real clean local build (no archive) of the same
project state and fingerprint; a matching uploaded artifact is taken without executing a build
step; all real Build-Ids of a behaviour (artifact names in the archive, identified through the
audit trail inside the artifact) partition exactly like the spec's structural Build-Ids.
(A'+B') specs/LiveBuildId.tla: git branch sources and the archive's live-build-id cache (prediction of
the source Build-Id without checkout), replayed with a real git upstream: checks/c07_live.py.
"""
import gzip
import hashlib
import io
import json
import multiprocessing as mp
import os
import random
import re
import shutil
import tarfile

from vf import common, tlc, evidence, bobrun, projgen

PROP = "C07"
WEAK = ["BidIgnoresFingerprint", "BidIgnoresSrc", "BidIgnoresVars", "BidIgnoresDepBid", "NoPruneOnBidChange",
        "InputsIgnoreFingerprint", "BidIgnoresLocation"]
ACTIONS = ["Edit", "Begin", "Prep", "DlNotTried", "DlPrune", "DlFetchOk", "DlFetchMiss", "DlHave", "Deps",
           "PkgSkip", "PkgBuild", "Installed"]


def shape_of(hist):
    s = []
    for a in hist:
        if a["a"] == "Edit":
            s.append("E:%s:%s" % (a["w"], a["knob"]))
        elif a["a"] == "Begin":
            s.append("B:%s:%s%s" % (a["w"], a["mode"], "+up" if a["upload"] else ""))
        elif a["a"] == "End":
            s.append("OK(b%d,d%d)" % (a["built"], a["dl"]))
        elif a["a"] == "DownloadFailed":
            s.append("DLFAIL")
    return " ".join(s)


def artifact_package(path):
    """package name recorded in the audit trail inside an artifact"""
    with tarfile.open(path, "r:gz") as t:
        for m in t:
            if m.name == "meta/audit.json.gz":
                data = gzip.decompress(t.extractfile(m).read())
                return json.loads(data)["artifact"]["meta"]["package"]
    return None


class Replay:
    def __init__(self, hist, work, origin="simulate"):
        self.hist = hist
        self.origin = origin
        self.work = work
        self.arch = os.path.join(work, "archive")
        os.makedirs(self.arch)
        # different absolute locations and depths on purpose
        self.ws = {"w1": os.path.join(work, "a", "ws-one"), "w2": os.path.join(work, "b", "deeper", "w2")}
        self.ctl = {w: os.path.join(work, "ctl-" + w) for w in self.ws}
        for d in list(self.ws.values()) + list(self.ctl.values()):
            os.makedirs(d)
        self.violations = []
        self.drift = []
        self.invocations = 0
        self.nontrivial = set()
        self.bids = {}        # real artifact name -> (package, model bid term)
        self.cur_w = "w1"
        self.clean_cache = {}
        self.log = []

    def viol(self, sig, **d):
        d["hist"] = self.hist
        d["log"] = self.log[-12:]
        self.violations.append((sig, d))

    def model_bid(self, proj, p):
        lib = ("lib", proj["srcl"])
        if p.endswith("lib"):
            return lib
        reloc = proj.get("reloc", True)
        return ("app", proj["pver"], proj["bver"], proj["V"], proj["fp"], reloc, "anywhere" if reloc else self.cur_w, lib)

    def clean(self, proj):
        key = projgen.proj_key(proj)
        if key in self.clean_cache:
            return self.clean_cache[key]
        d = os.path.join(self.work, "clean")
        ctl = os.path.join(self.work, "clean-ctl")
        shutil.rmtree(d, ignore_errors=True)
        shutil.rmtree(ctl, ignore_errors=True)
        os.makedirs(d)
        os.makedirs(ctl)
        with open(os.path.join(ctl, "hostfp"), "w") as f:
            f.write("fingerprint-%s\n" % proj["fp"])
        files, srcs = projgen.render_artifacts(proj, None)
        bobrun.write_files(d, files)
        for sub, fs in srcs.items():
            bobrun.sync_tree(d, sub, fs)
        r = bobrun.run_bob(d, ["dev", "app", "--download", "no"], record=False, ctl=ctl)
        self.invocations += 1
        if r.rc != 0:
            raise RuntimeError("oracle clean build failed:\n" + r.out[-2000:])
        paths = bobrun.dev_paths(d) or bobrun.query_paths(d, "app")
        res = {n.split("/")[-1]: bobrun.walk_tree(os.path.join(d, ps["dist"])) for n, ps in paths.items() if "dist" in ps}
        shutil.rmtree(d, ignore_errors=True)
        self.clean_cache[key] = res
        return res

    def list_artifacts(self):
        out = set()
        for d, _, fs in os.walk(self.arch):
            for f in fs:
                if f.endswith("-1.tgz"):
                    out.add(os.path.relpath(os.path.join(d, f), self.arch))
        return out

    def run(self):
        hist = self.hist
        i = 0
        while i < len(hist):
            a = hist[i]
            i += 1
            if a["a"] != "Begin":
                continue
            w, proj, mode = a["w"], a["proj"], a["mode"]
            self.cur_w = w
            files, srcs = projgen.render_artifacts(proj, self.arch)
            bobrun.write_files(self.ws[w], files)
            for sub, fs in srcs.items():
                bobrun.sync_tree(self.ws[w], sub, fs)
            with open(os.path.join(self.ctl[w], "hostfp"), "w") as f:
                f.write("fingerprint-%s\n" % proj["fp"])
            before = self.list_artifacts()
            fresh_root = not os.path.isdir(os.path.join(self.ws[w], "dev", "dist", "app"))
            new_terms = set()
            snap = {p: hashlib.sha1(open(os.path.join(self.arch, p), "rb").read()).hexdigest() for p in before}
            argv = ["dev", "app", "--download", mode] + (["--upload"] if a["upload"] else [])
            r = bobrun.run_bob(self.ws[w], argv, ctl=self.ctl[w])
            self.invocations += 1
            nxt = hist[i] if i < len(hist) else None
            m = re.search(r"(\d+) packages? built, (\d+) downloaded", r.out)
            built, dl = (int(m.group(1)), int(m.group(2))) if m else (None, None)
            self.log.append((w, mode, a["upload"], r.rc, built, dl))
            self.nontrivial.add("%s|up=%s|b%s|d%s" % (mode, a["upload"], built, dl))
            # archive: present artifacts never change; new ones get their build-id bucket
            for p, h in snap.items():
                fp = os.path.join(self.arch, p)
                if not os.path.exists(fp) or hashlib.sha1(open(fp, "rb").read()).hexdigest() != h:
                    self.viol("archive-artifact-replaced", artifact=p)
            for p in sorted(self.list_artifacts() - before):
                pkg = artifact_package(os.path.join(self.arch, p))
                term = self.model_bid(proj, pkg or "?")
                self.bids[p] = (pkg, term)
                new_terms.add(term)
            if nxt is not None and nxt["a"] == "DownloadFailed":
                i += 1
                if r.rc == 0 and self.origin == "simulate":
                    self.drift.append("model: forced download fails, real run succeeded (%s)" % mode)
                continue
            if r.rc != 0:
                if mode.startswith("forced") and "ownload" in r.out[-600:]:
                    if self.origin == "simulate":
                        self.drift.append("forced download failed in the real run only: %s" % r.out[-300:])
                    continue
                self.viol("invocation-failed", rc=r.rc, out=r.out[-2500:], mode=mode)
                return self
            # P: equals the clean local build of this project state and fingerprint
            want = self.clean(proj)
            paths = bobrun.dev_paths(self.ws[w]) or bobrun.query_paths(self.ws[w], "app")
            if "app" not in paths or "dist" not in paths["app"]:
                paths = bobrun.query_paths(self.ws[w], "app")
            dist = os.path.join(self.ws[w], paths["app"]["dist"])
            got = bobrun.walk_tree(dist)
            wanted = dict(want["app"])
            if not proj.get("reloc", True):
                # location dependent result: must name THIS workspace, everything else equals the clean build
                where = ""
                try:
                    with open(os.path.join(dist, "where.txt")) as f:
                        where = f.read().strip()
                except OSError:
                    pass
                if not where.startswith(self.ws[w] + os.sep):
                    self.viol("foreign-location-dependent-artifact-used", mode=mode, proj=proj, where=where, workspace=self.ws[w])
                    return self
                got.pop("where.txt", None)
                wanted.pop("where.txt", None)
                self.nontrivial.add("non-relocatable")
            if got != wanted:
                self.viol("download-build-differs-from-local-build", mode=mode, upload=a["upload"], proj=proj,
                          got=bobrun.tree_text(os.path.join(self.ws[w], paths["app"]["dist"]))[:1500])
                return self
            if nxt is not None and nxt["a"] == "End":
                i += 1
                # the End record of a counterexample history carries the numbers of the WEAKENED model
                if self.origin == "simulate" and (built, dl) != (nxt["built"], nxt["dl"]):
                    self.drift.append("model built/downloaded (%d,%d), real (%s,%s) in %s" % (nxt["built"], nxt["dl"], built, dl, mode))
            # P FullReuse, judged on the true structural build-ids: a root whose workspace holds no result and
            # whose exact build-id was uploaded before must be taken from the archive without building anything
            have = {term for (pkg, term) in self.bids.values() if pkg == "app"} - new_terms
            if fresh_root and mode in ("yes", "forced", "forced-fallback") and self.model_bid(proj, "app") in have:
                self.nontrivial.add("reuse-across-workspaces")
                if built:
                    self.viol("matching-artifact-not-reused", mode=mode, proj=proj, built=built, downloaded=dl)
                    return self
        # bucket test: real build-ids partition like the structural ones
        by_term = {}
        for name, (pkg, term) in self.bids.items():
            by_term.setdefault((pkg, term), set()).add(name)
        for k, names in by_term.items():
            if len(names) > 1:
                self.viol("same-inputs-different-build-id", term=repr(k), artifacts=sorted(names))
        return self


def replay_task(arg):
    i, hist, origin = arg
    work = common.scratch("vf-c07-")
    try:
        r = Replay(hist, work, origin).run()
    finally:
        shutil.rmtree(work, ignore_errors=True)
    return {"i": i, "origin": origin, "violations": r.violations, "drift": r.drift, "invocations": r.invocations,
            "nontrivial": sorted(r.nontrivial), "shape": shape_of(hist), "bids": len(r.bids)}


def select(hists, limit, rng, need=lambda h: True):
    by = {}
    for h in hists:
        if need(h):
            s = shape_of(h)
            if s not in by or len(h) < len(by[s]):
                by[s] = h
    keys = sorted(by, key=lambda s: (len(by[s]), s))
    if len(keys) > limit:
        head, rest = keys[:limit // 2], keys[limit // 2:]
        rng.shuffle(rest)
        keys = head + rest[:limit - len(head)]
    return [by[k] for k in keys]


def replay_file(path):
    d = json.load(open(path))["detail"]
    r = replay_task((0, d["hist"], "replay"))
    for sig, _ in r["violations"]:
        print("VIOLATION property=%s replay=%s" % (PROP, path))
        print("  signature: %s" % sig)
    print("replayed %s: %d violations, drift=%s" % (r["shape"], len(r["violations"]), r["drift"]))
    return 1 if r["violations"] else 0


def main():
    a = common.args(PROP)
    if a.replay:
        return replay_file(a.replay)
    rep = evidence.Report(PROP, a.tier, a.seed)
    quick = a.tier == "quick"
    rng = random.Random(a.seed)
    rep.rule = ("behaviour = history of edits in two workspaces and invocations with a download mode / upload flag from TLC "
                "(counterexamples of weakened build-id and download mechanisms + -simulate runs), replayed with two real "
                "workspaces at different paths and a real file archive; non-trivial = distinct (mode, upload, built, "
                "downloaded) outcomes; evaluations = real bob invocations")
    rep.assumptions = ["file archive backend only; import SCM sources (exact live build-ids, so wrong predictions are not exercised here)",
                       "host fingerprint emulated by a fingerprintScript printing a harness-controlled file",
                       "the build step is abstracted in BobArtifacts.tla to the contract checked by C01/C05"]
    num = 200 if quick else 3000
    jobs = [("main", "BobArtifacts", "BobArtifacts.cfg" if quick else "BobArtifacts_thorough.cfg", dict(coverage=True, timeout=3000))]
    jobs += [("reach:" + inv, "BobArtifacts", "BobArtifacts_reach_%s.cfg" % inv, dict(timeout=900)) for inv in ("ReachDownloadApp", "ReachRebuildAfterFp")]
    jobs += [("weak:" + w, "BobArtifacts", "BobArtifacts_weak_%s.cfg" % w, dict(timeout=1800)) for w in WEAK]
    jobs += [("gen", "BobArtifacts", "BobArtifacts_gen.cfg", dict(workers=1, simulate="num=%d" % num, depth=60, seed=a.seed + 1, timeout=900))]
    out = tlc.run_many(jobs, parallel=5)
    res = out["main"]
    rep.add_tlc(res, "BobArtifacts exhaustive (Weak={})")
    if res.violated:
        rep.violation("model:" + res.violated, {"cex": [c[0] for c in res.cex]})
    tlc.require_coverage(res, ACTIONS, "BobArtifacts.cfg")
    for inv in ("ReachDownloadApp", "ReachRebuildAfterFp"):
        if out["reach:" + inv].violated != inv:
            raise tlc.TlcError("vacuity: %s not reachable" % inv)
    behaviours = []
    for w in WEAK:
        r = out["weak:" + w]
        if not r.printed:
            raise tlc.TlcError("weakened model %s produced no counterexample (vacuous weakening)" % w)
        rep.add_tlc(r, "BobArtifacts Weak={%s} (counterexample generation)" % w)
        sel = select(r.printed, 5 if quick else 25, rng)
        rep.extra.setdefault("weakened_model_counterexamples", {})[w] = {"found": len(r.printed), "replayed": len(sel)}
        behaviours += [(h, "cex:" + w) for h in sel]
    g = out["gen"]
    sel = select(g.printed, 26 if quick else 250, rng,
                 need=lambda h: any(x["a"] == "End" and x["dl"] > 0 for x in h))
    behaviours += [(h, "simulate") for h in sel]
    rep.extra["simulated"] = {"generated": len(g.printed), "replayed": len(sel)}
    tasks = [(i, h, o) for i, (h, o) in enumerate(behaviours)]
    with mp.get_context("fork").Pool(min(8, common.workers())) as pool:
        for r in pool.imap_unordered(replay_task, tasks):
            rep.traces += 1
            rep.evaluations += r["invocations"]
            for nt in r["nontrivial"]:
                rep.nontriv(nt)
            for d in r["drift"]:
                rep.model_drift("%s: %s" % (r["shape"], d))
            for sig, detail in r["violations"]:
                detail["origin"] = r["origin"]
                rep.violation(sig, detail)
            if r["i"] % 25 == 0:
                rep.sample({"origin": r["origin"], "behaviour": r["shape"], "real_build_ids_bucketed": r["bids"]})
    # live-build-id prediction (git branch sources): specs/LiveBuildId.tla, see checks/c07_live.py
    from checks import c07_live
    c07_live.stage(rep, quick, a.seed, rng, min(8, common.workers()))
    if rep.drift:
        rep.level = "exploration"
    return rep.finish()


if __name__ == "__main__":
    evidence.main_wrapper(main)
