"""C12  Checkouts converge to the recipe and never destroy user work.

(A) TLC checks specs/GitCheckout.tla exhaustively (Weak = {}): all histories of recipe SCM edits,
    upstream commits / tag and branch moves, user operations in the git work tree and
    bob dev / bob dev --clean-checkout / bob clean -s / bob clean --attic up to the bounds, with
    git's own refusal rules; + reachability (vacuity) configs.
(B) Histories are replayed with REAL git and REAL Bob invocations (vf.bobrun) on generated local
    universes (bare upstream repositories, file:// url sources, an import directory):
      * TLC counterexamples of weakened mechanism models (reset --hard, no unpushed-commit refusal,
        no detached-HEAD refusal, attic replaced by deletion, clean ignoring the status, url file kept
        although its digest mismatches, fast-forward accepting a new upstream that is behind, switch
        without fetch): the shapes on which exactly that mistake shows;
      * TLC -simulate histories of the unweakened model.
Oracles (P layer, independent of the mechanism model), evaluated after EVERY Bob command:
  (i)  every blob / commit the user made so far (unique tokens, recorded commit ids) is still in a
       work tree below the project (source workspace or attic) resp. reachable from HEAD or a ref of
       a repository there                                             -> user-work-lost:<kind>:<cmd>
  (ii) if the user did not touch the current work tree and the command succeeded, the workspace
       (without .git) equals a fresh `bob dev` of the same recipe in an empty project AND a plain
       `git clone`/checkout, HEAD as there                            -> not-converged:<relation of HEAD to the fresh one | aux | tree | wrong-branch>
       a failing command on an untouched workspace although the fresh checkout works
                                                                      -> not-converged:refused:<why>
A Bob command that refuses (error exit) without destroying anything is fine. Disagreement with the
model's predicted decisions is model_drift.
"""
import hashlib
import json
import multiprocessing as mp
import os
import random
import re
import shutil
import subprocess

from vf import common, tlc, evidence, bobrun, projgen

PROP = "C12"
WEAK = ["ResetHard", "NoUnpushedRefusal", "NoDetachedRefusal", "AtticDeletes", "CleanIgnoresStatus",
        "UrlKeepsMismatch", "UrlSwitchAnyUrl", "FFAcceptsBehind", "SwitchNoFetch"]
ACTIONS = ["Edit:url", "Edit:rev", "Edit:dir", "Edit:removeA", "Edit:addA", "Edit:aux", "Edit:tree", "UpstreamCommit", "MoveBranch",
           "MoveTag", "UpstreamFile", "ImportEdit", "UserDirty", "UserUntracked", "UserCommit", "UserNewBranch", "UserCheckout",
           "UserDetach", "BobDev", "BobDevClean", "BobCleanSrc", "BobCleanAttic"]
REACH = ["ReachSwitchKeepsWork", "ReachAtticHoldsWork", "ReachCollide", "ReachCleanKeeps", "ReachCleanDeletes",
         "ReachAtticCleaned", "ReachAtticKept", "ReachDetachedRefusal", "ReachNestedAttic"]
WS = "dev/src/pkg/1/workspace"
DATE0 = 1577836800      # 2020-01-01T00:00:00Z

# commit DAG of the model: name -> (parent, branch used to build it, files)
COMMITS = [("c0", None, {"f.txt": "f@c0\n", "g.txt": "g\n"}),
           ("c1", "c0", {"f.txt": "f@c1\n"}),
           ("c2", "c0", {"f.txt": "f@c2\n", "h.txt": "h\n"}),
           ("c3", "c1", {"f.txt": "f@c3\n"})]


def genv(n=0):
    d = "%d +0000" % (DATE0 + n)
    return common.clean_env({"GIT_AUTHOR_DATE": d, "GIT_COMMITTER_DATE": d})


def git(cwd, *args, check=True, n=0, raw=False):
    p = subprocess.run(["git", "-c", "protocol.file.allow=always", "-c", "init.defaultBranch=master",
                        "-c", "advice.detachedHead=false", "-c", "gc.auto=0"] + list(args),
                       cwd=cwd, env=genv(n), stdout=subprocess.PIPE, stderr=subprocess.STDOUT, text=True, errors="replace")
    if check and p.returncode != 0:
        raise RuntimeError("git %s failed in %s:\n%s" % (" ".join(args), cwd, p.stdout))
    return p.returncode, (p.stdout if raw else p.stdout.strip())


# ---------------------------------------------------------------------------------------------
# gitgen: real universes from abstract states

def make_template(root):
    """seed repository holding the whole commit DAG (deterministic ids); returns name -> commit id"""
    seed = os.path.join(root, "seed")
    os.makedirs(seed)
    git(seed, "init", "-q", ".")
    ids = {}
    for i, (name, parent, files) in enumerate(COMMITS):
        if parent is not None:
            git(seed, "checkout", "-q", "--detach", ids[parent])
        for k, v in files.items():
            with open(os.path.join(seed, k), "w") as f:
                f.write(v)
        git(seed, "add", "-A")
        git(seed, "commit", "-q", "-m", name, n=i)
        ids[name] = git(seed, "rev-parse", "HEAD")[1]
    git(seed, "checkout", "-q", "--detach", ids["c0"])
    return ids


class Universe:
    """upstream repositories U1/U2, url files F1/F2, import directory of one history"""

    def __init__(self, root, tmpl, ids, annotated):
        self.root = root
        self.ids = dict(ids)
        self.names = {v: k for k, v in ids.items()}
        self.annotated = annotated
        self.seed = os.path.join(root, "seed")
        shutil.copytree(os.path.join(tmpl, "seed"), self.seed, symlinks=True)
        self.clock = 1_600_000_000
        for u in ("U1", "U2"):
            git(root, "init", "-q", "--bare", self.url(u))
            self.set_up(u, {"br": {"master": "c0", "dev": "c0"}, "tag": "c0"})
        for f in ("F1", "F2"):
            os.makedirs(os.path.join(root, "files", f))
            self.set_file(f, 0)

    def url(self, u):
        return os.path.join(self.root, u + ".git")

    def furl(self, f):
        return "file://" + os.path.join(self.root, "files", f, "data.txt")

    def set_up(self, u, st):
        refs = ["+%s:refs/heads/%s" % (self.ids[c], b) for b, c in sorted(st["br"].items())]
        if self.annotated:
            # one tag object per target commit: mirrors carry identical annotated tags
            git(self.seed, "tag", "-f", "-a", "-m", "T", "T", self.ids[st["tag"]], n=100 + int(st["tag"][1:]))
            refs.append("+refs/tags/T:refs/tags/T")
        else:
            refs.append("+%s:refs/tags/T" % self.ids[st["tag"]])
        git(self.seed, "push", "-q", "-f", self.url(u), *refs)

    @staticmethod
    def file_content(v):
        return "data v%d\n" % v

    def set_file(self, f, v):
        p = os.path.join(self.root, "files", f, "data.txt")
        with open(p, "w") as fh:
            fh.write(self.file_content(v))
        self.clock += 10
        os.utime(p, (self.clock, self.clock))


def render_project(proj, U, rec, iver):
    """recipes of the abstract recipe `rec`"""
    files = {"config.yaml": projgen.CONFIG, "recipes/top.yaml": "root: true\npackageScript: \"true\"\n"}
    scms = []
    a, b = rec["a"], rec["b"]
    if a["kind"] == "git":
        s = ["  - scm: git", "    url: \"%s\"" % U.url(a["url"])]
        if a["br"] != "none":
            s.append("    branch: \"%s\"" % a["br"])
        if a["tag"] != "none":
            s.append("    tag: \"%s\"" % a["tag"])
        if a["commit"] != "none":
            s.append("    commit: \"%s\"" % U.ids[a["commit"]])
        if a["dir"] != ".":
            s.append("    dir: \"%s\"" % a["dir"])
        scms.append("\n".join(s))
    if b["kind"] in ("url", "urld"):
        s = ["  - scm: url", "    url: \"%s\"" % U.furl(b["url"]), "    dir: aux"]
        if b["kind"] == "urld":
            s.append("    digestSHA256: \"%s\"" % hashlib.sha256(U.file_content(b["dv"]).encode()).hexdigest())
        scms.append("\n".join(s))
    elif b["kind"] == "imp":
        scms.append("  - scm: import\n    url: impsrc\n    dir: aux")
    txt = "root: %s\ncheckoutSCM:\n%s\nbuildScript: \"true\"\npackageScript: \"true\"\n" % ("true" if rec["inTree"] else "false", "\n".join(scms))
    files["recipes/pkg.yaml"] = txt
    bobrun.write_files(proj, files)
    bobrun.sync_tree(proj, "impsrc", {"i.txt": "imp v%d\n" % iver})


# ---------------------------------------------------------------------------------------------
# observation of the real project

def tree_nogit(root):
    t = bobrun.walk_tree(root)
    if t is None:
        return None
    return {k: list(v) for k, v in t.items() if ".git" not in k.split(os.sep)}


def git_dirs(base):
    """all git work trees below base (workspace and attic), not descending into .git"""
    out = []
    for d, dirs, files in os.walk(base):
        if ".git" in dirs:
            out.append(d)
            dirs.remove(".git")
    return out


def reachable(repo):
    rc, out = git(repo, "rev-list", "--all", check=False)
    s = set(out.split()) if rc == 0 else set()
    rc, out = git(repo, "rev-list", "HEAD", check=False)
    if rc == 0:
        s |= set(out.split())
    return s


def head_of(repo, names):
    """('b', branch) | ('d', commit name) | ('u',)"""
    rc, out = git(repo, "rev-parse", "-q", "--verify", "HEAD", check=False)
    if rc != 0:
        return ["u"], "none"
    commit = names.get(out, out)
    rc, br = git(repo, "symbolic-ref", "-q", "--short", "HEAD", check=False)
    return (["b", br] if rc == 0 else ["d", commit]), commit


class Stop(Exception):
    pass


class Replay:
    def __init__(self, hist, work, tmpl, ids, cache, annotated, origin):
        self.hist = hist
        self.work = work
        self.proj = os.path.join(work, "proj")
        os.makedirs(self.proj)
        self.U = Universe(work, tmpl, ids, annotated)
        self.cache = cache
        self.origin = origin
        self.rec = {"inTree": True, "b": {"kind": "none", "url": "F1", "dv": 0},
                    "a": {"kind": "git", "url": "U1", "br": "master", "tag": "none", "commit": "none", "dir": "."}}
        self.up = {u: {"br": {"master": "c0", "dev": "c0"}, "tag": "c0"} for u in ("U1", "U2")}
        self.fver = {"F1": 0, "F2": 0}
        self.iver = 0
        self.work_items = []      # (kind, token | commit id, label)
        self.touched = False
        self.seen = set()
        self.tag_stale = False
        self.rewritten = False
        self.last_edit = "initial"
        self.edits = []           # kinds of edits / upstream changes since the last converged build
        self.marker = None
        self.compare_model = origin == "simulate"   # histories of weakened models carry the weakened expectations
        self.violations = []
        self.drift = []
        self.nontrivial = set()
        self.invocations = 0
        self.oracle_builds = 0
        self.log = []
        self.nuser = 0

    # -- helpers ------------------------------------------------------------------------------
    def viol(self, sig, **detail):
        detail.update(hist=self.hist, log=self.log[-12:], origin=self.origin, annotated=self.U.annotated)
        self.violations.append((sig, detail))

    def ws(self):
        return os.path.join(self.proj, WS)

    def repo(self):
        d = self.rec["a"]["dir"] if self.rec["a"]["kind"] == "git" else None
        for cand in ([d] if d else []) + [".", "sub"]:
            p = os.path.normpath(os.path.join(self.ws(), cand))
            if os.path.isdir(os.path.join(p, ".git")):
                return p
        return None

    def token(self, label):
        return "vf-token-%s-%s" % (label, hashlib.sha1(("%s|%s|%d" % (self.work, label, len(self.work_items))).encode()).hexdigest()[:16])

    # -- oracles ------------------------------------------------------------------------------
    def check_user_work(self, cmd):
        """(i) every user blob/commit still exists somewhere below the project"""
        base = os.path.join(self.proj, "dev")
        texts = None
        reach = None
        for kind, val, label in self.work_items:
            if kind == "commit":
                if reach is None:
                    reach = {r: reachable(r) for r in git_dirs(base)} if os.path.isdir(base) else {}
                if not any(val in s for s in reach.values()):
                    dangling = [r for r in reach if git(r, "cat-file", "-e", val + "^{commit}", check=False)[0] == 0]
                    self.viol("user-work-lost:commit:" + cmd, commit=label, commit_id=val,
                              only_dangling_object_in=[os.path.relpath(r, self.proj) for r in dangling],
                              repos=[os.path.relpath(r, self.proj) for r in reach])
                    raise Stop()
            else:
                if texts is None:
                    texts = []
                    for d, dirs, files in os.walk(base):
                        if ".git" in dirs:
                            dirs.remove(".git")
                        for n in files:
                            try:
                                with open(os.path.join(d, n), "r", errors="replace") as f:
                                    texts.append((os.path.join(d, n), f.read()))
                            except OSError:
                                pass
                if not any(val in t for _, t in texts):
                    self.viol("user-work-lost:%s:%s" % (kind, cmd), item=label, token=val)
                    raise Stop()

    def fresh_key(self):
        a, b = self.rec["a"], self.rec["b"]
        return json.dumps([a, b, self.up[a["url"]] if a["kind"] == "git" else None,
                           self.fver[b["url"]] if b["kind"] in ("url", "urld") else None,
                           self.iver if b["kind"] == "imp" else None, self.U.annotated], sort_keys=True)

    def fresh(self):
        """second oracle: a real `bob dev` of the current recipe in an empty project (memoised on the
        abstract state) + first oracle: plain git clone/checkout; returns dict(ok, tree, head, commit)"""
        key = hashlib.sha1(self.fresh_key().encode()).hexdigest()
        f = os.path.join(self.cache, key + ".json")
        if os.path.exists(f):
            try:
                with open(f) as fh:
                    return json.load(fh)
            except ValueError:
                pass
        d = os.path.join(self.work, "fresh")
        shutil.rmtree(d, ignore_errors=True)
        os.makedirs(d)
        render_project(d, self.U, self.rec, self.iver)
        r = bobrun.run_bob(d, ["dev", "pkg"], record=False, timeout=600 * tscale())
        self.oracle_builds += 1
        res = {"ok": r.rc == 0, "out": r.out[-1500:]}
        if r.rc == 0:
            w = os.path.join(d, WS)
            res["tree"] = tree_nogit(w)
            a = self.rec["a"]
            if a["kind"] == "git":
                res["head"], res["commit"] = head_of(os.path.normpath(os.path.join(w, a["dir"])), self.U.names)
                res["plain"] = self.plain_clone()
                res["gittree"] = tree_nogit(os.path.normpath(os.path.join(w, a["dir"])))
                if a["dir"] == "." and res["gittree"] is not None:
                    res["gittree"] = {k: v for k, v in res["gittree"].items() if k != "aux" and not k.startswith("aux" + os.sep)}
        shutil.rmtree(d, ignore_errors=True)
        tmp = f + ".%d.tmp" % os.getpid()
        with open(tmp, "w") as fh:
            json.dump(res, fh)
        os.replace(tmp, f)
        return res

    def plain_clone(self):
        """first oracle: what plain git gives for the specification"""
        a = self.rec["a"]
        d = os.path.join(self.work, "plain")
        shutil.rmtree(d, ignore_errors=True)
        rc, out = git(self.work, "clone", "-q", "--no-checkout", self.U.url(a["url"]), d, check=False)
        if rc != 0:
            return None
        if a["commit"] != "none":
            rev = self.U.ids[a["commit"]]
        elif a["tag"] != "none":
            rev = "refs/tags/" + a["tag"]
        else:
            rev = "refs/remotes/origin/" + a["br"]
        rc, out = git(d, "checkout", "-q", "--detach", rev, check=False)
        t = tree_nogit(d) if rc == 0 else None
        shutil.rmtree(d, ignore_errors=True)
        return t

    def exempt(self):
        a = self.rec["a"]
        return a["kind"] == "git" and ((a["tag"] != "none" and self.tag_stale) or (a["br"] != "none" and self.rewritten))

    def relation(self, repo, want):
        """where the workspace HEAD is relative to the commit a fresh checkout has"""
        if repo is None:
            return "no-repo"
        rc, cur = git(repo, "rev-parse", "-q", "--verify", "HEAD", check=False)
        if rc != 0:
            return "no-head"
        wid = self.U.ids.get(want, want)
        if cur == wid:
            return "same-commit"
        if git(repo, "cat-file", "-e", wid + "^{commit}", check=False)[0] != 0:
            return "behind"            # the wanted commit was not even fetched
        if git(repo, "merge-base", "--is-ancestor", wid, cur, check=False)[0] == 0:
            return "ahead"
        if git(repo, "merge-base", "--is-ancestor", cur, wid, check=False)[0] == 0:
            return "behind"
        return "diverged"

    def check_converged(self, r, cmd):
        """(ii) untouched workspace == fresh checkout"""
        if self.touched or self.exempt():
            if self.exempt():
                self.nontrivial.add("exempt:" + ("tag-moved" if self.tag_stale else "branch-rewritten"))
            return
        fr = self.fresh()
        if not fr["ok"]:
            self.nontrivial.add("fresh-checkout-fails")
            return
        if r.rc != 0:
            why = "other"
            for pat, slug in (("digest did not match", "digest-mismatch"), ("collides", "collision"), ("fast-forward", "not-fast-forward"),
                              ("would be overwritten", "overwrite"), ("does not contain", "not-on-branch")):
                if pat in r.out:
                    why = slug
                    break
            self.viol("not-converged:refused:%s" % why, cmd=cmd, last_edit=self.last_edit, edits=self.edits, out=r.out[-2500:], rec=self.rec)
            raise Stop()
        got = tree_nogit(self.ws())
        a = self.rec["a"]
        repo = self.repo()
        if got != fr["tree"]:
            rel = self.relation(repo, fr.get("commit")) if a["kind"] == "git" else "aux"
            if rel == "same-commit":
                rel = "aux" if a["kind"] == "git" and self.subtree_equal(got, fr) else "tree"
            diff = sorted(k for k in set(got or {}) | set(fr["tree"] or {}) if (got or {}).get(k) != (fr["tree"] or {}).get(k))
            self.viol("not-converged:%s" % rel, cmd=cmd, last_edit=self.last_edit, edits=self.edits, differing_paths=diff[:10], rec=self.rec,
                      workspace=bobrun.tree_text(self.ws())[:1500], out=r.out[-1500:])
            raise Stop()
        if a["kind"] == "git":
            if fr.get("plain") is not None and fr["plain"] != fr.get("gittree"):
                self.drift.append("fresh bob dev differs from plain git clone/checkout for %s" % json.dumps(a))
            head, commit = head_of(repo, self.U.names)
            if commit != fr["commit"]:
                self.viol("not-converged:%s" % self.relation(repo, fr["commit"]), cmd=cmd, last_edit=self.last_edit, edits=self.edits,
                          head=head, fresh_head=fr["head"], rec=self.rec)
                raise Stop()
            if head != fr["head"]:
                if a["tag"] != "none" or a["commit"] != "none":
                    # pinned revision: "already on the correct commit -> do nothing" (git.py 305-318); by design
                    self.nontrivial.add("pinned-head-attachment-differs")
                else:
                    self.viol("not-converged:wrong-branch", cmd=cmd, last_edit=self.last_edit, edits=self.edits, head=head,
                              fresh_head=fr["head"], rec=self.rec)
                    raise Stop()
        for e in self.edits or ["none"]:
            self.nontrivial.add("converged-after:" + e)
        self.edits = []

    def subtree_equal(self, got, fr):
        a = self.rec["a"]
        pre = "" if a["dir"] == "." else a["dir"] + os.sep
        g = {k[len(pre):]: v for k, v in (got or {}).items() if k.startswith(pre) and k != "aux" and not k.startswith("aux" + os.sep)}
        return g == fr.get("gittree")

    # -- projection onto the model ---------------------------------------------------------------
    def project(self, rc):
        repo = self.repo()
        o = {"ok": rc == 0, "ex": repo is not None}
        if repo is not None:
            o["dir"] = os.path.relpath(repo, self.ws())
            o["head"], o["commit"] = head_of(repo, self.U.names)
            rcs, st = git(repo, "status", "--porcelain", check=False, raw=True)
            lines = [x for x in st.splitlines() if len(x) > 3]
            o["dF"] = any(x[3:] == "f.txt" and x[:2] != "??" for x in lines)
            o["dG"] = any(x[3:] == "g.txt" and x[:2] != "??" for x in lines)
            untr = []
            if os.path.exists(os.path.join(repo, "u.txt")):
                untr.append("u")
            if any(x == "?? h.txt" for x in lines):
                untr.append("h")
            if os.path.exists(os.path.join(repo, "aux", "u.txt")):
                untr.append("x")
            o["untr"] = sorted(untr)
        auxf = os.path.join(self.ws(), "aux")
        kind, v = "none", 0
        if os.path.isfile(os.path.join(auxf, "data.txt")):
            kind = "file"
            m = re.match(r"data v(\d+)", open(os.path.join(auxf, "data.txt")).read())
            v = int(m.group(1)) if m else -1
        elif os.path.isfile(os.path.join(auxf, "i.txt")):
            kind = "imp"
            m = re.match(r"imp v(\d+)", open(os.path.join(auxf, "i.txt")).read())
            v = int(m.group(1)) if m else -1
        o["aux"] = {"kind": kind, "v": v}
        attic = os.path.join(self.proj, os.path.dirname(WS), "attic")
        o["nattic"] = len([d for d in (os.listdir(attic) if os.path.isdir(attic) else [])
                           if os.path.isdir(os.path.join(attic, d, ".git"))])
        return o

    def compare(self, want, got, what):
        if not self.compare_model:
            return
        diffs = []
        for k in ("ok", "ex", "nattic"):
            if k in want and want[k] != got.get(k):
                diffs.append("%s: model %s, real %s" % (k, want[k], got.get(k)))
        if want.get("ex") and got.get("ex"):
            for k in ("dir", "head", "commit", "dF", "dG"):
                if want[k] != got.get(k):
                    diffs.append("%s: model %s, real %s" % (k, want[k], got.get(k)))
            if sorted(want["untr"]) != got.get("untr"):
                diffs.append("untr: model %s, real %s" % (sorted(want["untr"]), got.get("untr")))
        if "aux" in want:
            wk = {"none": "none", "url": "file", "urld": "file", "imp": "imp"}[want["aux"]["kind"]]
            if wk != got["aux"]["kind"] or (wk != "none" and want["aux"]["v"] != got["aux"]["v"]):
                diffs.append("aux: model %s, real %s" % (want["aux"], got["aux"]))
        if diffs:
            self.drift.append("%s [%s]: %s (model decisions %s)" % (what, shape_of(self.hist), "; ".join(diffs), want.get("dec")))
            self.compare_model = False      # the model's later expectations no longer apply

    # -- actions ------------------------------------------------------------------------------
    def bob(self, argv, cmd, a):
        render_project(self.proj, self.U, self.rec, self.iver)
        r = bobrun.run_bob(self.proj, argv, record=False, timeout=600 * tscale())
        self.invocations += 1
        if "Traceback (most recent call last)" in r.out:
            self.viol("bob-crashed:" + cmd, out=r.out[-3000:], rec=self.rec)
            raise Stop()
        msgs = [m for m in ("SWITCH", "ATTIC", "CHECKOUT", "collides") if m in r.out]
        self.log.append((cmd, r.rc, msgs))
        # identity of the work tree: a repository the user touched carries the harness marker
        repo = self.repo()
        if repo is None or not os.path.exists(os.path.join(repo, ".git", "vf-marker")):
            self.touched = False
        if repo is not None and not os.path.exists(os.path.join(repo, ".git", "vf-marker")):
            with open(os.path.join(repo, ".git", "vf-marker"), "w") as f:
                f.write("x")
        self.check_user_work(cmd)
        return r

    def user(self, a):
        repo = self.repo()
        if repo is None:
            self.drift.append("user operation %s but there is no work repository [%s]" % (a["a"], shape_of(self.hist)))
            raise Stop()
        self.touched = True
        self.nuser += 1
        act, arg = a["a"], a["arg"]
        rc, out = 0, ""
        if act == "UserDirty":
            tok = self.token("dirty-" + arg)
            with open(os.path.join(repo, arg + ".txt"), "a") as f:
                f.write(tok + "\n")
            self.work_items.append(("dirty-tracked", tok, arg + ".txt"))
        elif act == "UserUntracked":
            rel = {"u": "u.txt", "h": "h.txt", "x": "aux/u.txt"}[arg]
            tok = self.token("untracked-" + arg)
            os.makedirs(os.path.dirname(os.path.join(repo, rel)), exist_ok=True)
            with open(os.path.join(repo, rel), "w") as f:
                f.write(tok + "\n")
            self.work_items.append(("untracked", tok, rel))
        elif act == "UserCommit":
            tok = self.token("commit-" + arg)
            fn = arg.lower() + ".txt"
            with open(os.path.join(repo, fn), "w") as f:
                f.write(tok + "\n")
            git(repo, "add", fn)
            rc, out = git(repo, "commit", "-q", "-m", arg, "--", fn, check=False, n=1000 + self.nuser)
            if rc == 0:
                cid = git(repo, "rev-parse", "HEAD")[1]
                self.U.ids[arg] = cid
                self.U.names[cid] = arg
                self.work_items.append(("commit", cid, arg))
        elif act == "UserNewBranch":
            rc, out = git(repo, "checkout", "-q", "-b", arg, check=False)
        elif act == "UserCheckout":
            rc, out = git(repo, "checkout", "-q", arg, check=False)
        elif act == "UserDetach":
            rc, out = git(repo, "checkout", "-q", "--detach", check=False)
        if rc != 0:
            self.drift.append("git refused the user operation %s %s the model enabled [%s]: %s" % (act, arg, shape_of(self.hist), out[-300:]))
            raise Stop()
        self.nontrivial.add("user:%s:%s" % (act, arg if act in ("UserDirty", "UserUntracked") else ""))

    def run(self):
        try:
            self._run()
        except Stop:
            pass
        return self

    def _run(self):
        for a in self.hist:
            act = a["a"]
            if act == "Edit":
                self.rec = a["rec"]
                self.last_edit = a["what"]
                self.edits.append(self.last_edit)
            elif act in ("UpstreamCommit", "MoveBranch", "MoveTag"):
                u = a["u"]
                self.up[u] = a["up"]
                self.U.set_up(u, a["up"])
                if act == "MoveBranch" and u in self.seen:
                    self.rewritten = True
                if act == "MoveTag":
                    self.tag_stale = True
                self.last_edit = {"UpstreamCommit": "upstream-commit", "MoveBranch": "upstream-branch-move", "MoveTag": "upstream-tag-move"}[act]
                self.edits.append(self.last_edit)
            elif act == "UpstreamFile":
                self.fver[a["f"]] = a["v"]
                self.U.set_file(a["f"], a["v"])
                self.last_edit = "upstream-file"
                self.edits.append(self.last_edit)
            elif act == "ImportEdit":
                self.iver = a["v"]
                self.last_edit = "import-source"
                self.edits.append(self.last_edit)
            elif act.startswith("User"):
                self.user(a)
            elif act in ("BobDev", "BobDevClean"):
                cmd = "dev" if act == "BobDev" else "dev-clean-checkout"
                if self.rec["a"]["kind"] == "git":
                    self.seen.add(self.rec["a"]["url"])
                r = self.bob(["dev", "pkg"] + (["--clean-checkout"] if act == "BobDevClean" else []), cmd, a)
                got = self.project(r.rc)
                self.compare(a["obs"], got, cmd)
                for d in a["obs"].get("dec", []):
                    self.nontrivial.add("%s:%s:%s" % (cmd, d, "userwork" if self.work_items else "clean"))
                self.check_converged(r, cmd)
            elif act in ("BobCleanSrc", "BobCleanAttic"):
                cmd = "clean-src" if act == "BobCleanSrc" else "clean-attic"
                r = self.bob(["clean", "-s"] if act == "BobCleanSrc" else ["clean", "--attic"], cmd, a)
                if r.rc != 0:
                    self.drift.append("bob %s failed: %s" % (cmd, r.out[-300:]))
                    self.compare_model = False
                got = self.project(r.rc)
                if act == "BobCleanSrc":
                    deleted = not os.path.exists(self.ws())
                    if self.compare_model and deleted != a["obs"]["deleted"]:
                        self.drift.append("clean -s [%s]: model deleted=%s, real deleted=%s" % (shape_of(self.hist), a["obs"]["deleted"], deleted))
                        self.compare_model = False
                    self.nontrivial.add("clean-src:%s:%s" % ("deleted" if deleted else "kept", "userwork" if self.work_items else "clean"))
                else:
                    if self.compare_model and got["nattic"] != a["obs"]["nattic"]:
                        self.drift.append("clean --attic [%s]: model leaves %s, real %s" % (shape_of(self.hist), a["obs"]["nattic"], got["nattic"]))
                        self.compare_model = False
                    self.nontrivial.add("clean-attic:%d-left:%s" % (got["nattic"], "userwork" if self.work_items else "clean"))


def tscale():
    return int(os.environ.get("VF_TIMEOUT_SCALE", "1") or 1)


def shape_of(hist):
    s = []
    for a in hist:
        n = a["a"]
        if n == "Edit":
            s.append("E:" + a["what"])
        elif n in ("UpstreamCommit", "MoveBranch", "MoveTag"):
            s.append({"UpstreamCommit": "UC", "MoveBranch": "MB", "MoveTag": "MT"}[n] + ":" + a["arg"][0])
        elif n == "UpstreamFile":
            s.append("UF")
        elif n == "ImportEdit":
            s.append("IE")
        elif n.startswith("User"):
            s.append("%s%s" % (n[4:], ":" + a["arg"] if n in ("UserDirty", "UserUntracked") else ""))
        elif n.startswith("Bob"):
            s.append(n[3:].upper() + ("(" + ",".join(a["obs"].get("dec", [])) + ")" if "dec" in a.get("obs", {}) else ""))
    return " ".join(s)


def replay_task(arg):
    i, hist, origin, tmpl, ids, cache = arg
    work = common.scratch("vf-c12-")
    try:
        r = Replay(hist, work, tmpl, ids, cache, annotated=(i % 3 == 2), origin=origin).run()
    finally:
        shutil.rmtree(work, ignore_errors=True)
    return {"i": i, "origin": origin, "violations": r.violations, "drift": r.drift, "invocations": r.invocations,
            "oracle_builds": r.oracle_builds, "nontrivial": sorted(r.nontrivial), "shape": shape_of(hist)}


def select(hists, limit, rng, need=lambda h: True):
    by = {}
    for h in hists:
        if not need(h):
            continue
        s = shape_of(h)
        if s not in by:
            by[s] = h
    keys = sorted(by, key=lambda s: (len(by[s]), s))
    if len(keys) > limit:
        head = keys[:limit // 3]
        rest = keys[limit // 3:]
        rng.shuffle(rest)
        keys = head + rest[:limit - len(head)]
    return [by[k] for k in keys]


def select_diverse(hists, limit, rng):
    """counterexamples of a weakened model: one shortest history per (user operations, final Bob command and
    its model decisions) class first, then more by length"""
    groups = {}
    for h in hists:
        if not h[-1]["a"].startswith("Bob"):
            continue            # the violation is already visible at the last Bob command of a prefix
        users = tuple(sorted("%s:%s" % (x["a"], x["arg"]) if x["a"] in ("UserDirty", "UserUntracked") else x["a"]
                             for x in h if x["a"].startswith("User")))
        key = (users, h[-1]["a"], tuple(h[-1]["obs"].get("dec", [])))
        groups.setdefault(key, {}).setdefault(shape_of(h), h)
    firsts, rest = [], []
    for key in sorted(groups, key=lambda k: (min(len(h) for h in groups[k].values()), repr(k))):
        shapes = sorted(groups[key], key=lambda sh: (len(groups[key][sh]), sh))
        firsts.append(groups[key][shapes[0]])
        rest += [groups[key][sh] for sh in shapes[1:]]
    rng.shuffle(rest)
    return (firsts + rest)[:limit]


def setup_universe():
    tmpl = common.scratch("vf-c12-tmpl-")
    ids = make_template(tmpl)
    cache = common.scratch("vf-c12-oracle-")
    return tmpl, ids, cache


def replay_file(path):
    d = json.load(open(path))["detail"]
    tmpl, ids, cache = setup_universe()
    i = 2 if d.get("annotated") else 0
    r = replay_task((i, d["hist"], d.get("origin", "replay"), tmpl, ids, cache))
    for sig, detail in r["violations"]:
        print("VIOLATION property=%s replay=%s" % (PROP, path))
        print("  signature: %s" % sig)
    print("replayed %s: %d violations, drift=%s" % (r["shape"], len(r["violations"]), r["drift"]))
    return 1 if r["violations"] else 0


def tlc_jobs(jobs):
    """run several TLC configurations concurrently (the worker budget is shared); results in order"""
    from concurrent.futures import ThreadPoolExecutor
    par = max(1, min(4, common.workers() // 2))
    per = max(1, common.workers() // par)

    def one(j):
        kw = dict(j[1])
        kw.setdefault("workers", per)
        return tlc.run("GitCheckout", j[0], deadlock=False, **kw)
    with ThreadPoolExecutor(par) as ex:
        return list(ex.map(one, jobs))


def main():
    a = common.args(PROP, lambda ap: ap.add_argument("--only", default=None,
                                                     help="development aid: replay only histories of this origin (e.g. cex:ResetHard, simulate); skips (A)"))
    if a.replay:
        return replay_file(a.replay)
    rep = evidence.Report(PROP, a.tier, a.seed)
    quick = a.tier == "quick"
    rng = random.Random(a.seed)
    rep.rule = ("history = recipe-SCM-edit / upstream / user-operation / Bob-command sequence from TLC (counterexamples of weakened "
                "mechanism models + -simulate runs) replayed with real git and real bob invocations; non-trivial = distinct "
                "(command, model decision, user work present) / user operation / convergence-after-edit classes exercised; "
                "evaluations = real bob invocations incl. fresh-checkout oracles")
    rep.assumptions = [
        "user work = modified tracked files, untracked (not ignored) files, commits reachable from HEAD or a local branch; "
        "a commit that is only a dangling object (reflog) counts as lost, as git.py 677-681 argues itself",
        "documented exemptions from convergence: tag specifications once a tag was moved in an upstream repository (a tag name is "
        "taken to denote one commit in all repositories forever; tags are deterministic per the manual) and a tracked branch that was moved non-fast-forward (manual: updates fail unless rebase=true)",
        "pinned tag/commit: only tree and HEAD commit are compared, HEAD attachment is by design left alone (git.py 305-318)",
        "local bare repositories and file:// urls, lightweight and annotated tags; svn/cvs, submodules, tarball extraction, "
        "shallow/singleBranch/rebase options are not covered",
        "file modification times of upstream url files strictly increase with every change",
    ]
    weak = [w for w in WEAK if a.only in (None, "cex:" + w)]
    jobs = []
    if a.only is None:
        exh = "GitCheckout.cfg" if quick else "GitCheckout_thorough.cfg"
        jobs.append((exh, dict(timeout=6000)))      # TLC's -coverage runs out of memory on this module; see action_coverage below
        jobs += [("GitCheckout_reach_%s.cfg" % inv, dict(timeout=3000)) for inv in REACH]
    jobs += [("GitCheckout_weak_%s.cfg" % w, dict(timeout=3000)) for w in weak]
    results = tlc_jobs(jobs)
    if a.only is None:
        res = results.pop(0)
        rep.add_tlc(res, "GitCheckout exhaustive (Weak={}) " + exh)
        if res.violated:
            rep.violation("model:" + res.violated, {"cex": [c[0] for c in res.cex], "last": res.cex[-1][1][:3000] if res.cex else None})
        for inv in REACH:
            r2 = results.pop(0)
            if r2.violated != inv:
                raise tlc.TlcError("vacuity: %s not reachable" % inv)
    # (B) targeted histories from weakened mechanisms
    behaviours = []
    for w in weak:
        r = results.pop(0)
        if not r.printed:
            raise tlc.TlcError("weakened model %s produced no counterexample (vacuous weakening)" % w)
        rep.add_tlc(r, "GitCheckout Weak={%s} (counterexample generation)" % w)
        sel = select_diverse(r.printed, 12 if quick else 60, rng)
        rep.extra.setdefault("weakened_model_counterexamples", {})[w] = {"found": len(r.printed), "replayed": len(sel)}
        behaviours += [(h, "cex:" + w) for h in sel]
    if a.only in (None, "simulate"):
        num = 1500 if quick else 6000
        g = tlc.run("GitCheckout", "GitCheckout_gen.cfg", workers=1, simulate="num=%d" % num, depth=12, seed=a.seed + 1,
                    timeout=1800, deadlock=False)
        sel = select(g.printed, 70 if quick else 800, rng,
                     need=lambda h: sum(1 for x in h if x["a"].startswith("Bob")) >= 2)
        behaviours += [(h, "simulate") for h in sel]
        rep.extra["simulated"] = {"generated": len(g.printed), "replayed": len(sel)}
        # vacuity: every action of the module occurs in the generated histories (measured; TLC -coverage is unusable here)
        cov = {}
        for h in g.printed:
            for x in h:
                k = "Edit:" + x["what"] if x["a"] == "Edit" else x["a"]
                cov[k] = cov.get(k, 0) + 1
        rep.extra["action_coverage"] = cov
        missing = [k for k in ACTIONS if not cov.get(k)]
        if missing:
            # rare actions (addA needs a preceding removeA): look again in a larger sample before calling it vacuous
            g2 = tlc.run("GitCheckout", "GitCheckout_gen.cfg", workers=1, simulate="num=%d" % (4 * num), depth=12, seed=a.seed + 1001,
                         timeout=3600, deadlock=False)
            for h in g2.printed:
                for x in h:
                    k = "Edit:" + x["what"] if x["a"] == "Edit" else x["a"]
                    cov[k] = cov.get(k, 0) + 1
            missing = [k for k in ACTIONS if not cov.get(k)]
        if missing:
            raise tlc.TlcError("vacuity: actions never taken in %d simulated histories: %s" % (len(g.printed), missing))
    if a.only is not None:
        rep.extra["partial_run_only"] = a.only
        rep.level = "exploration"
    tmpl, ids, cache = setup_universe()
    tasks = [(i, h, origin, tmpl, ids, cache) for i, (h, origin) in enumerate(behaviours)]
    with mp.get_context("fork").Pool(common.workers()) as pool:
        for r in pool.imap_unordered(replay_task, tasks):
            rep.traces += 1
            rep.evaluations += r["invocations"] + r["oracle_builds"]
            for nt in r["nontrivial"]:
                rep.nontriv(nt)
            for sig, detail in r["violations"]:
                rep.violation(sig, detail)
            if not r["violations"]:
                for d in r["drift"]:
                    rep.model_drift("%s: %s" % (r["origin"], d))
            if r["i"] % 25 == 0:
                rep.sample({"origin": r["origin"], "history": r["shape"]})
    rep.extra["drift_examples"] = rep.drift[:10]
    if rep.drift:
        rep.level = "exploration"
    return rep.finish()


if __name__ == "__main__":
    evidence.main_wrapper(main)
