"""C18  Package path queries return their declarative meaning.

(A) TLC checks specs/PathQuery.tla: the forward declarative semantics written from the manual
    (bobpaths.rst, bob.rst --query) is evaluated for every (graph, query) of a finite universe and
    checked for internal consistency (path-wise = set-wise meaning, descendant = child+ closure,
    abbreviation identities, admissible witnesses are real paths, error classes ordered) and for
    M => P of the one optimisation whose correctness is a for-all statement (predicates evaluated
    backwards over the whole graph).  Reach configs = vacuity control.
(B) every TLC state is one case {graph, query string, expected packages, admissible witness paths,
    visited packages, error class per query mode}.  For every catalogue graph real recipes are
    generated, parsed by the real bob.input.RecipeSet, and EVERY case is evaluated with the real
    PackageSet.queryTreePath / queryPackagePath (first result and queryAll), cold (package and graph
    caches built in this run) and warm (a fresh RecipeSet reading .bob-packages.pickle and
    .bob-tree.sqlite3), in the query modes nullset / nullglob / nullfail.

Identity of a result: the property speaks of the SET of packages.  Bob's graph has one node per
package variant (PkgGraphNode key = Package._getId()); the same variant reached on two paths is one
result, two variants of one recipe are two results.  Results are therefore compared as sets of
abstract package ids: a reported stack is walked through the catalogue graph (child names are unique
below a parent), and the real id -> abstract id map is established independently of pathspec.py by
walking the real bob.input.Package objects in lock step with the catalogue graph (which also proves
that the generated recipes realise the catalogue graph, incl. provided dependencies and variants).
queryPackagePath never yields the virtual root (it is not a package); its expected set is exp - {root}.

Verdict (P): wrong package set; a reported stack that is no real path / ends elsewhere; a reported
stack that is not one of the admissible witnesses (does not pass the intermediate steps); wrong
empty-result behaviour for the mode; duplicates; any exception other than BobError.
Not P (recorded, exit status unchanged): queryAll not listing every admissible witness; behaviour in
the cases where the manual does not decide the nullglob class ("either").

Signatures (stable, one VIOLATION per signature with count + examples in the replay file):
  result-missing:nested-descendant-match   missing packages in a case where a multi-hop step matches a package
                                           below another match with non-matching packages in between
  result-missing | result-extra | result-differs      any other wrong package set
  witness-not-admissible    reported stack is real, ends at a result, stays inside the packages visited by the
                            step-wise evaluation, but skips / does not follow the intermediate steps
  witness-outside-visited   reported stack runs through a package the step-wise evaluation never visits
  path-not-real | path-endpoint-mismatch | duplicates-first | duplicates-all
  unexpected-error:empty-result:<mode> | unexpected-error:nonempty-result | missing-error:empty-result:<mode>
  exception:<Type>          anything but BobError
Development knobs (never needed for a regular run): VF_WORKERS caps pool and TLC workers,
VF_C18_GRAPHS=1,7,... replays only those graphs (evidence level drops to exploration).
"""
import json
import multiprocessing as mp
import os
import shutil
import sys
from concurrent.futures import ThreadPoolExecutor

from vf import common, tlc, evidence

PROP = "C18"
# development on a loaded machine: VF_WORKERS caps the replay pool and the TLC workers (default 16)
NW = max(1, int(os.environ.get("VF_WORKERS", "16") or 16))
MODES = ("nullset", "nullglob", "nullfail")
REACH_QUICK = ("ReachInadmissiblePath", "ReachNestedMatch")
REACH_ALL = ("ReachTwoWitnesses", "ReachInadmissiblePath", "ReachGlobError", "ReachGlobEmptyOk",
             "ReachNestedMatch", "ReachPredicateSplits")


class Machinery(Exception):
    pass


# ------------------------------------------------------------------------------------------------
# catalogue graph -> real project


class AGraph:
    """Abstract graph as printed by TLC (node 0 = virtual root)."""

    def __init__(self, gid, d):
        self.gid = gid
        self.n = d["n"]
        self.names = [""] + list(d["name"])
        self.vars = [""] + list(d["var"])
        self.dep = set(map(tuple, d["dep"]))
        self.prov = set(map(tuple, d["prov"]))
        self.ind = set(map(tuple, d["ind"]))
        self.dch = {v: sorted(c for (p, c) in self.dep if p == v) for v in range(self.n + 1)}
        self.ich = {v: sorted(c for (p, c) in self.ind if p == v) for v in range(self.n + 1)}
        self.dmap = {v: {self.names[c]: c for c in self.dch[v]} for v in self.dch}
        self.cmap = {v: dict(self.dmap[v], **{self.names[c]: c for c in self.ich[v]}) for v in self.dch}
        for v in self.dch:
            if len(self.cmap[v]) != len(self.dch[v]) + len(self.ich[v]):
                raise Machinery("graph %s: child names below %d are not unique" % (gid, v))

    def walk(self, stack, direct=False):
        """node path for a stack of child names from the root; None if it is no real path"""
        v, path = 0, []
        for nm in stack:
            v = (self.dmap if direct else self.cmap)[v].get(nm)
            if v is None:
                return None
            path.append(v)
        return tuple(path)

    def pstr(self, path):
        return "/".join(self.names[v] for v in path) or "/"


def write_project(d, G, aliases):
    os.makedirs(os.path.join(d, "recipes"))
    with open(os.path.join(d, "config.yaml"), "w") as f:
        json.dump({"bobMinimumVersion": "1.0"}, f)
    with open(os.path.join(d, "default.yaml"), "w") as f:
        json.dump({"alias": aliases}, f)
    by_name = {}
    for v in range(1, G.n + 1):
        by_name.setdefault(G.names[v], []).append(v)
    for nm, nodes in by_name.items():
        multi = len(nodes) > 1
        v0 = nodes[0]
        for v in nodes[1:]:   # variants share the recipe: same dependency names, same provideDeps
            if sorted(G.dmap[v]) != sorted(G.dmap[v0]) or \
               sorted(G.names[c] for c in G.dch[v] if (v, c) in G.prov) != sorted(G.names[c] for c in G.dch[v0] if (v0, c) in G.prov):
                raise Machinery("graph %s: variants of %s differ in dependencies" % (G.gid, nm))
        rec = {}
        if any((0, v) in G.dep for v in nodes):
            rec["root"] = True
        deps = []
        for c in G.dch[v0]:
            cn = G.names[c]
            if len(by_name[cn]) > 1:
                if multi:
                    raise Machinery("graph %s: variant below variant not supported" % G.gid)
                deps.append({"name": cn, "environment": {"LIC": G.vars[c]}})
            else:
                deps.append(cn)
        if deps:
            rec["depends"] = deps
        provs = sorted(G.names[c] for c in G.dch[v0] if (v0, c) in G.prov)
        if provs:
            rec["provideDeps"] = provs
        if multi:
            rec["packageVars"] = ["LIC"]
        elif G.vars[v0] != "":
            if v0 % 2 == 0:
                rec["metaEnvironment"] = {"LIC": G.vars[v0]}
            else:
                rec["privateEnvironment"] = {"LIC": G.vars[v0]}
                rec["packageVars"] = ["LIC"]
        rec["packageScript"] = "echo " + nm
        with open(os.path.join(d, "recipes", nm + ".yaml"), "w") as f:
            json.dump(rec, f)      # JSON is YAML


def bind_graph(G, rootPkg):
    """Walk the real bob.input.Package objects in lock step with the catalogue graph.
    Returns {real package id: abstract id}.  Independent of pathspec.py."""
    idmap, seen = {}, set()

    def lic(pkg):
        env = dict(pkg.getPackageStep().getEnv())
        env.update(pkg.getMetaEnv())
        return env.get("LIC", "")

    def visit(pkg, v):
        pid = pkg._getId()
        if idmap.setdefault(pid, v) != v:
            raise Machinery("graph %s: real package %s is shared between abstract packages %d and %d"
                            % (G.gid, "/".join(pkg.getStack()), idmap[pid], v))
        if (pid, v) in seen:
            return
        seen.add((pid, v))
        if v and (pkg.getName() != G.names[v] or lic(pkg) != G.vars[v]):
            raise Machinery("graph %s: package %d realised as %s LIC=%r, wanted %s LIC=%r"
                            % (G.gid, v, pkg.getName(), lic(pkg), G.names[v], G.vars[v]))
        direct = {}
        for s in pkg.getDirectDepSteps():
            direct[s.getPackage().getName()] = s.getPackage()
        indirect = {}
        for s in pkg.getIndirectDepSteps():
            p = s.getPackage()
            if p.getName() not in direct:
                indirect.setdefault(p.getName(), p)
        want_d = {G.names[c]: c for c in G.dch[v]}
        want_i = {G.names[c]: c for c in G.ich[v]}
        if set(direct) != set(want_d) or set(indirect) != set(want_i):
            raise Machinery("graph %s: children of %d: real direct %s indirect %s, catalogue direct %s indirect %s"
                            % (G.gid, v, sorted(direct), sorted(indirect), sorted(want_d), sorted(want_i)))
        for nm, p in direct.items():
            visit(p, want_d[nm])
        for nm, p in indirect.items():
            visit(p, want_i[nm])

    visit(rootPkg, 0)
    back = {}
    for pid, v in idmap.items():
        if back.setdefault(v, pid) != pid:
            raise Machinery("graph %s: abstract package %d has two real variants (not shared)" % (G.gid, v))
    return idmap


# ------------------------------------------------------------------------------------------------
# oracles


def classify_set(case, ends, exp):
    missing, extra = exp - ends, ends - exp
    if missing and not extra:
        return "result-missing:nested-descendant-match" if case["nested"] else "result-missing"
    if extra and not missing:
        return "result-extra"
    return "result-differs"


class Evaluator:
    def __init__(self, G, idmap, packageSets, temp):
        self.G, self.idmap, self.ps, self.temp = G, idmap, packageSets, temp
        self.problems = []        # (signature, detail)
        self.notes = {}           # non-P observations: name -> [count, first example]
        self.evals = 0

    def note(self, name, example):
        n = self.notes.setdefault(name, [0, example])
        n[0] += 1

    def prob(self, sig, case, mode, variant, **kw):
        d = {"graph": self.G.gid, "query": case["q"], "mode": mode, "api": variant, "cache": self.temp,
             "expected": sorted(self.G.pstr((v,)) if v else "/" for v in case["exp"])}
        d.update(kw)
        self.problems.append((sig, d))

    def call(self, ps, kind, q, qall):
        """-> ('ok', [node paths]) | ('error', msg); raises for foreign exceptions"""
        from bob.errors import BobError
        G = self.G
        self.evals += 1
        try:
            if kind == "tree":
                raw = list(ps.queryTreePath(q, qall))
            else:
                raw = list(ps.queryPackagePath(q, qall))
        except BobError as e:
            return ("error", str(e).splitlines()[0][:200])
        out = []
        for r in raw:
            if kind == "tree":
                stack, node = r
                path = G.walk(stack)
                key, nm = node.key(), node.getName()
            else:
                stack = r.getStack()
                path = G.walk(stack, direct=True)
                key, nm = r._getId(), r.getName()
            if path is None:
                out.append(("notreal", "/".join(stack)))
                continue
            end = path[-1] if path else 0
            if self.idmap.get(key) != end or nm != G.names[end]:
                out.append(("wrongend", "/".join(stack)))
                continue
            out.append(("path", path))
        return ("ok", out)

    def check(self, case, mode, variants):
        G = self.G
        ps = self.ps[mode]
        exp_all = set(case["exp"])
        wit = set(map(tuple, case["wit"]))
        vis = set(case["vis"])
        want = case["err"][mode]
        for kind, qall in variants:
            variant = "%s-%s" % (kind, "all" if qall else "first")
            try:
                st, out = self.call(ps, kind, case["q"], qall)
            except Exception as e:       # anything but BobError
                self.prob("exception:" + type(e).__name__, case, mode, variant, error=str(e)[:300])
                continue
            if st == "error":
                if want == "ok":
                    self.prob("unexpected-error:" + ("empty-result:" + mode if not exp_all else "nonempty-result"),
                              case, mode, variant, error=out)
                elif want == "either" and case["err"]["mech"] != "error":
                    self.note("nullglob-undetermined-differs-from-mechanism", [G.gid, case["q"], "error"])
                elif want == "either":
                    self.note("nullglob-undetermined", [G.gid, case["q"], "error"])
                continue
            if want == "error":
                self.prob("missing-error:empty-result:" + mode, case, mode, variant)
                continue
            if want == "either":
                self.note("nullglob-undetermined-differs-from-mechanism" if case["err"]["mech"] != "ok"
                          else "nullglob-undetermined", [G.gid, case["q"], "empty set"])
            bad = [o for o in out if o[0] != "path"]
            if bad:
                self.prob("path-not-real" if bad[0][0] == "notreal" else "path-endpoint-mismatch",
                          case, mode, variant, reported=[b[1] for b in bad[:5]])
            paths = [o[1] for o in out if o[0] == "path"]
            ends = set(p[-1] if p else 0 for p in paths)
            exp = exp_all - {0} if kind == "pkg" else exp_all
            if ends != exp:
                self.prob(classify_set(case, ends, exp), case, mode, variant,
                          got=sorted(G.pstr(p) for p in paths))
            if not qall and len(paths) != len(ends):
                self.prob("duplicates-first", case, mode, variant, got=sorted(G.pstr(p) for p in paths))
            if kind == "tree":
                if qall and len(paths) != len(set(paths)):
                    self.prob("duplicates-all", case, mode, variant, got=sorted(G.pstr(p) for p in paths))
                for p in paths:
                    if (p[-1] if p else 0) in exp and p not in wit:
                        sig = "witness-not-admissible" if set(p) | {0} <= vis else "witness-outside-visited"
                        self.prob(sig, case, mode, variant, reported=G.pstr(p),
                                  admissible=sorted(G.pstr(w) for w in wit)[:12])
                        break
                if qall and ends == exp and not wit <= set(paths):
                    self.note("queryall-incomplete",
                              [G.gid, case["q"], sorted(G.pstr(w) for w in wit - set(paths))[:4]])


ALL4 = (("tree", False), ("tree", True), ("pkg", False), ("pkg", True))


def plan(case, seed):
    """-> {temp: [(mode, api variants)]}.  Parsing dominates the cost of a predicate query (pyparsing
    infix notation, ~15 ms), so predicate cases get two complementary variants cold and one warm;
    plain cases get all four, cold and warm.  The query mode only matters for empty results: those
    are evaluated in all three modes."""
    h = sum(map(ord, case["q"])) + seed + int(case["g"])
    primary = MODES[h % 3]
    if case["pred"]:
        cold = (("tree", True), ("pkg", False)) if h % 2 == 0 else (("tree", False), ("pkg", True))
        warm = (ALL4[(h // 2) % 4],)
    else:
        cold = warm = ALL4
    out = {"cold": [(primary, cold)], "warm": [(primary, warm)]}
    if not case["exp"]:
        for m in MODES:
            if m != primary:
                out["cold"].append((m, (ALL4[h % 4],)))
                if not case["pred"]:
                    out["warm"].append((m, (ALL4[(h + 1) % 4],)))
    return out


def run_cases(G, aliases, cases, seed, keep=False):
    """Evaluate the cases of one graph with the real code, cold and warm. -> result dict"""
    from bob.input import RecipeSet
    work = common.scratch("vf-c18-")
    proj = os.path.join(work, "p")
    cwd = os.getcwd()
    res = {"cases": len(cases), "evals": 0, "problems": [], "notes": {}, "warm_ok": 0}
    try:
        write_project(proj, G, aliases)
        os.chdir(proj)
        for temp in ("cold", "warm"):
            rs = RecipeSet()
            rs.parse()
            order = MODES[(seed + (G.gid if isinstance(G.gid, int) else 0)) % 3:] + MODES[:(seed + (G.gid if isinstance(G.gid, int) else 0)) % 3]
            pss = {}
            for m in order:
                rs._queryMode = m
                pss[m] = rs.generatePackages(lambda s, m: "unused")
            first = pss[order[0]]
            if temp == "warm":
                # vacuity: the warm graph must come from .bob-tree.sqlite3 without generating packages
                try:
                    list(first.queryTreePath("//*", True))
                except Exception:
                    pass                  # judged by the cases below
                if getattr(first, "_PackageSet__root", None) is None:
                    res["warm_ok"] = 1
            idmap = bind_graph(G, first.getRootPackage())
            ev = Evaluator(G, idmap, pss, temp)
            for c in cases:
                for m, variants in plan(c, seed)[temp]:
                    ev.check(c, m, variants)
            res["evals"] += ev.evals
            res["problems"] += ev.problems
            for k, v in ev.notes.items():
                n = res["notes"].setdefault(k, [0, v[1]])
                n[0] += v[0]
            for p in pss.values():
                p.close()
    finally:
        os.chdir(cwd)
        if not keep:
            shutil.rmtree(work, ignore_errors=True)
    return res


def task(arg):
    gid, gdef, aliases, cases, seed = arg
    try:
        return run_cases(AGraph(gid, gdef), aliases, cases, seed)
    except Machinery as e:
        return {"machinery": str(e)}
    except Exception as e:
        import traceback
        return {"machinery": "graph %s: %s\n%s" % (gid, e, traceback.format_exc()[-1500:])}


def _init_worker():
    sys.stderr = open(os.devnull, "w")


# ------------------------------------------------------------------------------------------------


def all_root_paths(G):
    out = []

    def rec(v, p):
        out.append(p)
        for c in G.cmap[v].values():
            rec(c, p + (c,))
    rec(0, ())
    return out


def case_features(cases, graphs):
    """Vacuity of the generated cases, measured on what TLC printed."""
    f = dict.fromkeys(["nonempty", "empty", "two_witnesses", "inadmissible_path_exists", "nested_match",
                       "glob_error", "glob_empty_ok", "glob_either", "predicate", "predicate_nonempty",
                       "alias", "root_in_result", "variant_separated"], 0)
    paths = {gid: all_root_paths(G) for gid, G in graphs.items()}
    for c in cases:
        G = graphs[c["g"]]
        exp = set(c["exp"])
        f["nonempty" if exp else "empty"] += 1
        ends = [w[-1] if w else 0 for w in c["wit"]]
        f["two_witnesses"] += len(ends) != len(set(ends))
        wit = set(map(tuple, c["wit"]))
        f["inadmissible_path_exists"] += any((p[-1] if p else 0) in exp and p not in wit for p in paths[c["g"]])
        f["nested_match"] += bool(c["nested"])
        if not exp:
            f["glob_error"] += c["err"]["nullglob"] == "error"
            f["glob_empty_ok"] += c["err"]["nullglob"] == "ok"
            f["glob_either"] += c["err"]["nullglob"] == "either"
        f["predicate"] += bool(c["pred"])
        f["predicate_nonempty"] += bool(c["pred"] and exp)
        f["alias"] += c["q"].startswith(("top", "deepb"))
        f["root_in_result"] += 0 in exp
        twins = [v for v in range(1, G.n + 1) if G.names.count(G.names[v]) > 1]
        f["variant_separated"] += bool(twins) and len(exp & set(twins)) == 1
    return f


def run_tlc(quick):
    jobs = []
    if quick:
        jobs.append(("PathQuery.cfg", dict(coverage=True, workers=min(14, NW), timeout=9000)))
        reach = REACH_QUICK
    else:
        jobs.append(("PathQuery_thorough.cfg", dict(coverage=True, workers=min(10, NW), timeout=30000, heap="8g")))
        jobs.append(("PathQuery_dags.cfg", dict(coverage=False, workers=min(6, NW), timeout=30000)))
        reach = REACH_ALL
    for r in reach:
        jobs.append(("PathQuery_reach_%s.cfg" % r, dict(workers=1, timeout=9000, heap="2g")))
    with ThreadPoolExecutor(len(jobs) if NW >= 8 else 2) as ex:
        futs = [(cfg, ex.submit(tlc.run, "PathQuery", cfg, **kw)) for cfg, kw in jobs]
        return [(cfg, f.result()) for cfg, f in futs]


def replay(path, rep):
    with open(path) as f:
        j = json.load(f)
    d = j["detail"]
    rep.seed = j.get("seed", rep.seed)
    common.use_repo()
    import bob.input  # noqa: F401
    G = AGraph(d["graph_id"], d["graph"])
    r = run_cases(G, d["aliases"], d["cases"], rep.seed)
    sigs = {}
    for sig, det in r["problems"]:
        sigs.setdefault(sig, det)
    for sig, det in sigs.items():
        rep.violation(sig, {"count": 1, "examples": [det], "graph_id": G.gid, "graph": d["graph"],
                            "aliases": d["aliases"], "cases": d["cases"]})
    # the evidence file of the last regular run is left alone
    for sig, k in rep.known_hits.items():
        print("KNOWN-FINDING: property=%s %s" % (PROP, k.get("what", sig)), flush=True)
    print("%s replay: cases=%d evaluations=%d violations=%d" % (PROP, len(d["cases"]), r["evals"], len(rep.violations)), flush=True)
    return 1 if rep.violations else 0


def main():
    a = common.args(PROP)
    rep = evidence.Report(PROP, a.tier, a.seed)
    rep.rule = ("cases = TLC states of PathQuery.tla with a complete query (graph x query), every one replayed into the "
                "real PackageSet; non-trivial = distinct cases with a non-empty result that have a predicate, two or "
                "more steps or several witness paths; evaluations = real queryTreePath/queryPackagePath calls "
                "(first/all x cold/warm x query modes)")
    rep.assumptions = [
        "the manual (bobpaths.rst, bob.rst --query) is the reference; where it does not decide the nullglob class "
        "(explicit multi-hop axis with exact name, bare self@*, wildcard only after the first empty step) either behaviour is accepted",
        "queryPackagePath never reports the virtual root (it is not a package)",
        "package identity = package variant (Package._getId); generated recipes realise the catalogue graph, "
        "verified per graph on the real Package objects before any query",
        "predicate strings are limited to one package variable LIC, string literals, eq()/ne(); globs to '*'",
    ]
    if a.replay:
        return replay(a.replay, rep)
    quick = a.tier == "quick"

    # (A) TLC
    runs = run_tlc(quick)
    catalogue, cases = {}, []
    aliases = None
    for cfg, res in runs:
        rep.add_tlc(res, cfg)
        if "_reach_" in cfg:
            inv = cfg[len("PathQuery_reach_"):-4]
            if res.violated != inv:
                raise tlc.TlcError("vacuity: %s not reachable (%s)" % (inv, res.violated))
            continue
        if res.violated:
            rep.violation("model:" + res.violated, {"config": cfg, "cex": res.cex[-2:]})
        if res.coverage:
            tlc.require_coverage(res, ["AddPlainStep", "AddDeepStep", "AddPredicateStep"], cfg)
        n = 0
        for p in res.printed:
            if "catalogue" in p:
                gs = p["catalogue"]["graphs"]       # ToJson: a function over 1..n is a list
                for gid, gdef in (enumerate(gs, 1) if isinstance(gs, list) else gs.items()):
                    catalogue[int(gid)] = gdef
                aliases = p["catalogue"]["aliases"]
            else:
                cases.append(p)
                n += 1
        rep.extra.setdefault("cases_per_config", {})[cfg] = n
    seen, uniq = set(), []
    for c in cases:
        k = (c["g"], c["q"])
        if k not in seen:
            seen.add(k)
            uniq.append(c)
    cases = uniq
    if not cases or aliases is None:
        raise tlc.TlcError("TLC printed no cases")
    graphs = {gid: AGraph(gid, gdef) for gid, gdef in catalogue.items()}
    feats = case_features(cases, graphs)
    rep.extra["case_features"] = feats
    for k in ("two_witnesses", "inadmissible_path_exists", "nested_match", "glob_error", "glob_empty_ok",
              "predicate_nonempty", "alias", "root_in_result", "variant_separated"):
        if not feats[k]:
            raise tlc.TlcError("vacuity: no generated case with feature " + k)

    # (B) replay every case into the real code
    common.use_repo()
    import bob.input  # noqa: F401  (import before fork)
    import bob.pathspec  # noqa: F401
    by_graph = {}
    only = os.environ.get("VF_C18_GRAPHS")       # development only: replay just these graphs
    if only:
        keep = set(int(x) for x in only.split(","))
        cases = [c for c in cases if c["g"] in keep]
        rep.extra["DEVELOPMENT_ONLY_graph_filter"] = sorted(keep)
        rep.level = "exploration"
    for c in cases:
        by_graph.setdefault(c["g"], []).append(c)
    tasks = []
    for gid, cs in by_graph.items():
        plain = [c for c in cs if not c["pred"]]
        pred = [c for c in cs if c["pred"]]
        for i in range(0, len(plain), 400):
            tasks.append((gid, catalogue[gid], aliases, plain[i:i + 400], a.seed))
        for i in range(0, len(pred), 40):
            tasks.append((gid, catalogue[gid], aliases, pred[i:i + 40], a.seed))
    tasks.sort(key=lambda t: -(len(t[3]) * (10 if t[3][0]["pred"] else 1)))
    case_by_key = {(c["g"], c["q"]): c for c in cases}
    found = {}       # signature -> [count, examples]
    notes = {}
    warm_ok = 0
    with mp.get_context("fork").Pool(NW, initializer=_init_worker) as pool:
        for r in pool.imap_unordered(task, tasks, chunksize=1):
            if "machinery" in r:
                raise Machinery(r["machinery"])
            rep.traces += r["cases"]
            rep.evaluations += r["evals"]
            warm_ok += r["warm_ok"]
            for sig, det in r["problems"]:
                e = found.setdefault(sig, [0, []])
                e[0] += 1
                if len(e[1]) < 4 and all(x["query"] != det["query"] or x["graph"] != det["graph"] for x in e[1]):
                    e[1].append(det)
            for k, v in r["notes"].items():
                n = notes.setdefault(k, [0, v[1]])
                n[0] += v[0]
    if warm_ok != len(tasks):
        raise Machinery("warm pass regenerated the package graph in %d of %d tasks" % (len(tasks) - warm_ok, len(tasks)))
    for c in cases:
        if c["exp"] and (c["pred"] or c["n"] >= 2 or len(c["wit"]) > len(c["exp"])):
            rep.nontriv((c["g"], c["q"]))
    for c in cases[:: max(1, len(cases) // 5)][:5]:
        rep.sample({"graph": c["g"], "query": c["q"], "expected": [graphs[c["g"]].pstr((v,)) if v else "/" for v in c["exp"]],
                    "witnesses": [graphs[c["g"]].pstr(tuple(w)) for w in c["wit"]][:6], "err": c["err"]})
    rep.extra["graphs"] = len(by_graph)
    rep.extra["not_P_observations"] = {k: {"count": v[0], "first": v[1]} for k, v in sorted(notes.items())}
    rep.extra["violation_counts"] = {sig: e[0] for sig, e in sorted(found.items())}
    for sig, (count, examples) in sorted(found.items()):
        ex0 = examples[0]
        rep.violation(sig, {"count": count, "examples": examples, "graph_id": ex0["graph"],
                            "graph": catalogue[ex0["graph"]], "aliases": aliases,
                            "cases": [case_by_key[(x["graph"], x["query"])] for x in examples if x["graph"] == ex0["graph"]]})
    return rep.finish()


if __name__ == "__main__":
    evidence.main_wrapper(main)
