"""C20  Jenkins job graph is acyclic, complete and faithful.

(A) TLC checks specs/JenkinsJobs.tla exhaustively: the algorithm of JobNameCalculator.sanitize,
    _genJenkinsJobs/JenkinsJob.addStep and genJenkinsBuildOrder (M) over all labelled package DAGs x
    package names (variants, multiPackage prefixes) x isolate sets x root lists within the bounds
    implies unique names, acyclic job graph (after every merge and in the end), every package in
    exactly one job, direct upstream edges (P).  Coverage + reachability (vacuity) configs.
(B-i)  every case printed by the generation configs is replayed into the REAL JobNameCalculator,
    the real _genJenkinsJobs / JenkinsJob.addStep / getUpstreamJobs and the real genJenkinsBuildOrder
    with duck-typed package/step objects (5 tool/sandbox patterns x shortdescription on/off).
(B-ii) a seed-chosen subset is written as real recipes (multiPackage, variants selected through the
    dependency environment, provideTools + use:[tools], provideSandbox + use:[sandbox]) and the real
    genJenkinsJobs runs end to end in-process.
(B-iii) faithfulness: the job specification the job carries (dumpXML -> shell command -> exec.Spec ->
    PartialIR.fromData) is compared step by step with the live Step objects: variant-id (also
    recomputed from the deserialized data by getDigestCoro), build-id digests for supplied dependency
    build-ids, scripts, environment, tools, sandbox, arguments, workspace paths, the executable StepSpec.
    Thorough: the job specs are executed on an emulated build node (`bob _jexec run`, artifacts and
    build-ids copied like the copy-artifact plug-in, in real build order) and results/build-ids are
    compared with a local `bob build`.

Verdict (P layer, judged on the real objects by an oracle that knows only the package graph): duplicate
job name, cyclic job graph / "Jobs are cyclic" for an acyclic package graph, package in zero or two jobs,
missing upstream edge, any difference between job specification and live steps.  Partition/names that
differ from M without violating P are model_drift.
"""
import hashlib
import json
import pickle
import multiprocessing as mp
import os
import random
import re
import shutil
import subprocess
import sys
import time
import concurrent.futures

from vf import common, tlc, evidence

PROP = "C20"
NW = max(1, int(os.environ.get("VF_WORKERS", "16") or 16))   # worker processes / TLC workers (16 unless capped from outside)
KINDS = {"a": "arg", "t": "tool", "s": "sandbox"}


# --------------------------------------------------------------------------------------------
# cases

def kind_of(ksel, n, pos, ln):
    """Port of KindOf in JenkinsJobs.tla (pos is 1-based): children in label order are arguments first,
    then tools, the sandbox last."""
    t = (ksel + n) % 5
    if t == 1 and pos == ln:
        return "t"
    if t == 2 and pos == ln:
        return "s"
    if t == 3 and pos == ln and ln > 1:
        return "s"
    if t == 3 and ((ln > 1 and pos == ln - 1) or ln == 1):
        return "t"
    if t == 4 and pos >= ln - 1:
        return "t"
    return "a"


class Case:
    """One (graph, names, isolate, roots) case printed by TLC together with M's result."""

    def __init__(self, d):
        self.raw = d
        self.n = d["n"]
        self.kids = {i + 1: [c for c, _ in row] for i, row in enumerate(d["d"])}
        self.kinds = {i + 1: [k for _, k in row] for i, row in enumerate(d["d"])}
        self.names = {i + 1: nm for i, nm in enumerate(d["nm"])}
        self.iso = sorted(d["iso"])
        self.roots = list(d["r"])
        self.ksel = d["k"]
        self.m_jobs = {j["name"]: frozenset(j["pkgs"]) for j in d["j"]}
        self.m_names_unique = len(self.m_jobs) == len(d["j"])
        self.m_partition = frozenset(frozenset(j["pkgs"]) for j in d["j"])
        self.m_bo = d["bo"]

    def with_ksel(self, k):
        kinds = {n: [kind_of(k, n, i + 1, len(cs)) for i in range(len(cs))] for n, cs in self.kids.items()}
        return kinds

    def edges(self, kinds=None):
        kinds = kinds or self.kinds
        return [(p, c, k) for p in sorted(self.kids) for c, k in zip(self.kids[p], kinds[p])]

    def key(self):
        return json.dumps([self.n, self.raw["d"], self.raw["nm"], self.iso, self.roots], sort_keys=True)

    def iso_regex(self):
        return "^(?:%s)$" % "|".join(re.escape(x) for x in self.iso) if self.iso else None

    def brief(self):
        return {"n": self.n, "deps": {p: list(zip(self.kids[p], [KINDS[k] for k in self.kinds[p]])) for p in self.kids if self.kids[p]},
                "names": self.names, "isolate": self.iso, "roots": self.roots}


def reach(kids, roots):
    seen, todo = set(), list(roots)
    while todo:
        x = todo.pop()
        if x not in seen:
            seen.add(x)
            todo.extend(kids[x])
    return seen


# --------------------------------------------------------------------------------------------
# P oracle: knows the package graph and the observed jobs, nothing about the algorithm

def find_cycle(nodes, succ):
    """Returns a cycle (list) of the directed graph or None; iterative three-colour DFS."""
    color = {}
    for s in nodes:
        if s in color:
            continue
        stack = [(s, iter(sorted(succ.get(s, ()))))]
        color[s] = 1
        path = [s]
        while stack:
            u, it = stack[-1]
            for v in it:
                if color.get(v) == 1:
                    return path[path.index(v):] + [v]
                if v not in color:
                    color[v] = 1
                    path.append(v)
                    stack.append((v, iter(sorted(succ.get(v, ())))))
                    break
            else:
                color[u] = 2
                path.pop()
                stack.pop()
    return None


def p_oracle(kids, edge_kinds, roots, job_pkgs, upstream, abstract_jobs, bo):
    """kids: node -> children; edge_kinds: (p, c) -> kind letter; job_pkgs: job name -> set of nodes built by it;
    upstream: job name -> set of job names; abstract_jobs: list of (frozenset(nodes), set(names of its nodes)) or None;
    bo: ("ok", order) | ("cyclic", msg) | None. Returns list of (signature, detail)."""
    out = []
    R = reach(kids, roots)
    where = {}
    for name, pk in job_pkgs.items():
        for p in pk:
            where.setdefault(p, []).append(name)
    for p in sorted(R):
        if p not in where:
            out.append(("package-in-no-job", {"package": p}))
        elif len(where[p]) > 1:
            out.append(("package-in-two-jobs", {"package": p, "jobs": where[p]}))
    for p in sorted(where):
        if p not in R:
            out.append(("unreachable-package-built", {"package": p, "jobs": where[p]}))
    if out:
        return out
    for p in sorted(R):
        for c in kids[p]:
            jp, jc = where[p][0], where[c][0]
            if jp != jc and jc not in upstream.get(jp, ()):
                out.append(("missing-upstream:" + KINDS[edge_kinds[(p, c)]],
                            {"package": p, "dependency": c, "job": jp, "dependency_job": jc, "upstream": sorted(upstream.get(jp, ()))}))
    for j, ups in upstream.items():
        for u in ups:
            if u not in job_pkgs:
                out.append(("dangling-upstream", {"job": j, "upstream": u}))
    dup = None
    if abstract_jobs is not None:
        byname = {}
        for pk, names in abstract_jobs:
            if len(names) != 1:
                out.append(("job-with-several-names", {"packages": sorted(pk), "names": sorted(names)}))
            for nm in names:
                byname.setdefault(nm, []).append(pk)
        for nm, lst in sorted(byname.items()):
            if len(lst) > 1:
                dup = nm
                out.append(("duplicate-job-name", {"name": nm, "jobs": [sorted(x) for x in lst]}))
    # the job graph that the property demands, on the observed partition
    need = {}
    for p in R:
        for c in kids[p]:
            if where[p][0] != where[c][0]:
                need.setdefault(where[p][0], set()).add(where[c][0])
    cyc = find_cycle(sorted(job_pkgs), need) or find_cycle(sorted(job_pkgs), upstream)
    if cyc:
        out.append(("cyclic-job-graph" + (":duplicate-name" if dup else ""), {"cycle": cyc}))
    if bo is not None:
        if bo[0] == "cyclic" and not cyc:
            out.append(("build-order-rejects-acyclic", {"message": bo[1]}))
        elif bo[0] == "ok":
            order = bo[1]
            pos = {j: i for i, j in enumerate(order)}
            if cyc:
                out.append(("build-order-accepts-cycle", {"order": order}))
            elif sorted(order) != sorted(job_pkgs) or any(pos[u] > pos[j] for j in upstream for u in upstream[j] if u in pos and j in pos):
                out.append(("build-order-invalid", {"order": order}))
    return out


# --------------------------------------------------------------------------------------------
# (B-i) duck-typed replay into the real name calculator / job population / build order

class DRecipe:
    __slots__ = ("name",)

    def __init__(self, name):
        self.name = name

    def getName(self):
        return self.name


class DPackage:
    __slots__ = ("name", "recipe", "pstep", "stack")

    def getName(self):
        return self.name

    def getRecipe(self):
        return self.recipe

    def getPackageStep(self):
        return self.pstep

    def getStack(self):
        return self.stack


class DRef:
    """Tool or sandbox reference."""
    __slots__ = ("step",)

    def __init__(self, step):
        self.step = step

    def getStep(self):
        return self.step


class DStep:
    __slots__ = ("vid", "pkg", "kind", "args", "tools", "sandbox", "valid")

    def __init__(self, vid, pkg, kind):
        self.vid, self.pkg, self.kind = vid, pkg, kind
        self.args, self.tools, self.sandbox, self.valid = [], {}, None, True

    def getVariantId(self):
        return self.vid

    def getSandbox(self):
        return self.sandbox if self.valid else None

    def isValid(self):
        return self.valid

    def isPackageStep(self):
        return self.kind == "p"

    def isBuildStep(self):
        return self.kind == "b"

    def isCheckoutStep(self):
        return self.kind == "c"

    def getPackage(self):
        return self.pkg

    def getArguments(self):
        return self.args

    def getTools(self):
        return self.tools if self.valid else {}

    def getAllDepSteps(self):   # same composition as bob.input.Step.getAllDepSteps
        sandbox = self.getSandbox()
        return self.getArguments() + [d.step for n, d in sorted(self.getTools().items())] + ([sandbox.getStep()] if sandbox else [])

    def __lt__(self, other):
        return self.vid < other.vid


class DummyIR:
    """Stands in for PartialIR in the duck-typed replay only (the job specification is checked in B-iii)."""

    def add(self, step):
        pass


def build_duck(case, kinds):
    pk = {}
    for n in range(1, case.n + 1):
        p = DPackage()
        p.name = case.names[n]
        p.recipe = DRecipe(case.names[n].split("-")[0])
        p.stack = ["n%d" % n]
        p.pstep = DStep(b"P%c" % n, p, "p")
        pk[n] = p
    for n, p in pk.items():
        b = DStep(b"B%c" % n, p, "b")
        c = DStep(b"C%c" % n, p, "c")
        tools = {"t%d" % ch: DRef(pk[ch].pstep) for ch, k in zip(case.kids[n], kinds[n]) if k == "t"}
        sb = [DRef(pk[ch].pstep) for ch, k in zip(case.kids[n], kinds[n]) if k == "s"]
        sb = sb[0] if sb else None
        # a package has a checkout step only when that does not change the visiting order (sandbox first)
        c.valid = sb is None and n % 2 == 1
        b.args = [c] + [pk[ch].pstep for ch, k in zip(case.kids[n], kinds[n]) if k == "a"]
        b.tools, b.sandbox = tools, sb
        p.pstep.args = [b]
        p.pstep.tools, p.pstep.sandbox = tools, sb
    return pk


_rec = []


def install_recorder(jmod):
    """Record the AbstractJob objects the real algorithm creates (harness-side rebinding, no source change)."""
    orig = jmod.AbstractJob
    if getattr(orig, "_vf_rec", False):
        return

    class RecJob(orig):
        __slots__ = ()
        _vf_rec = True

        def __init__(self, *a, **k):
            super().__init__(*a, **k)
            _rec.append(self)

    jmod.AbstractJob = RecJob


def alive_abstract_jobs():
    jobs = [j for j in _rec if j.pkgs]
    return [j for j in jobs if not any(k is not j and j.pkgs < k.pkgs for k in jobs)]


def run_duck(case, kinds, shortdesc, jmod, errors):
    """One real execution. Returns (violations, real partition {name: frozenset(nodes)})."""
    pk = build_duck(case, kinds)
    del _rec[:]
    calc = jmod.JobNameCalculator("")
    for r in case.roots:
        calc.addPackage(pk[r])
    calc.isolate(case.iso_regex())
    calc.sanitize()
    vid2node = {jmod.getJenkinsVariantId(pk[n].pstep): n for n in pk}
    R = reach(case.kids, case.roots)
    names = {n: calc.getJobInternalName(pk[n].pstep) for n in R}
    abstract = []
    for j in alive_abstract_jobs():
        nodes = frozenset(vid2node[v] for v in j.pkgs)
        abstract.append((nodes, {names[x] for x in nodes}))
    jobs = {}
    for r in sorted((pk[r] for r in case.roots), key=lambda p: p.getName()):
        jmod._genJenkinsJobs(r.getPackageStep(), jobs, calc, False, False, set(), set(), shortdesc)
    job_pkgs = {name: {vid2node[jmod.getJenkinsVariantId(s)] for s in j.getPackageSteps()} for name, j in jobs.items()}
    upstream = {name: set(j.getUpstreamJobs()) for name, j in jobs.items()}
    try:
        bo = ("ok", jmod.genJenkinsBuildOrder(jobs))
    except errors.ParseError as e:
        bo = ("cyclic", str(e))
    ek = {(p, c): k for p, c, k in case.edges(kinds)}
    v = p_oracle(case.kids, ek, case.roots, job_pkgs, upstream, abstract or None, bo)
    return v, {name: frozenset(p) for name, p in job_pkgs.items()}, bo[0]


def classify_dup(case, sig, detail):
    """The collision of a counting suffix with a package name is one input class of its own."""
    if sig.startswith("duplicate-job-name") and re.search(r"-\d+$", detail["name"]):
        for pk in detail["jobs"]:
            if all(case.names[p] == detail["name"] for p in pk):
                return sig + ":suffix-equals-package-name"
    return sig


def duck_task(arg):
    chunk, seed = arg
    common.use_repo()
    import bob.cmds.jenkins.jenkins as jmod
    import bob.errors as errors
    saved = jmod.PartialIR
    jmod.PartialIR = DummyIR
    install_recorder(jmod)
    res = {"cases": 0, "evals": 0, "viol": [], "drift": [], "nontriv": set(), "suffix_cases": 0}
    try:
        for d in chunk:
            case = Case(d)
            res["cases"] += 1
            suffix = False
            for k in range(5):
                for sd in ((False, True) if k == case.ksel else (False,)):
                    kinds = case.with_ksel(k)
                    try:
                        v, part, bo = run_duck(case, kinds, sd, jmod, errors)
                    except (KeyError, IndexError, AssertionError, TypeError, ValueError, RecursionError) as e:
                        import traceback
                        tb = [t for t in traceback.extract_tb(e.__traceback__) if "/pym/bob/" in t.filename]
                        if not tb:
                            raise
                        v, part, bo = [("job-generation-crash:%s" % type(e).__name__ + ("" if case.m_names_unique else ":duplicate-name"),
                                        {"error": "%s: %s" % (type(e).__name__, e), "at": "%s:%d %s" % (os.path.basename(tb[-1].filename), tb[-1].lineno, tb[-1].name)})], None, None
                    res["evals"] += 1
                    for sig, det in v:
                        sig = classify_dup(case, sig, det)
                        suffix = suffix or sig.endswith(":suffix-equals-package-name") or sig.endswith(":duplicate-name")
                        if len(res["viol"]) < 40:
                            res["viol"].append((sig, dict(det, case=case.brief(), ksel=k, shortdescription=sd, level="duck-typed")))
                    if not v and k == case.ksel and not sd:
                        if part != case.m_jobs and len(res["drift"]) < 5:
                            res["drift"].append("duck-typed: jobs %s, model %s for %s" % (
                                {a: sorted(b) for a, b in part.items()}, {a: sorted(b) for a, b in case.m_jobs.items()}, case.brief()))
                        if bo != case.m_bo and len(res["drift"]) < 5:
                            res["drift"].append("duck-typed: build order %s, model %s for %s" % (bo, case.m_bo, case.brief()))
            res["suffix_cases"] += suffix
            h = d["h"]
            if h:
                feats = {"merge:" + x[0] for x in h}
                if any(x[0] == "skip" for x in h) and any(x[0] == "join" for x in h):
                    feats.add("merge:skip+join")
                if len(case.m_jobs) < len(set(case.names[n] for n in range(1, case.n + 1))):
                    feats.add("merged-different-packages")
                if any(re.search(r"-\d$", nm) for nm in case.m_jobs):
                    feats.add("numbered-name")
                if case.iso:
                    feats.add("isolate")
                res["nontriv"].add("%d:%s" % (case.n, ",".join(sorted(feats))))
    finally:
        jmod.PartialIR = saved
    res["nontriv"] = sorted(res["nontriv"])
    return res


# --------------------------------------------------------------------------------------------
# (B-ii) real recipes

class Unrealizable(Exception):
    pass


def sel_expr(case, pname):
    """Variants of one package are selected by the variable SEL, set by the referring dependency.
    A source of the graph is addressed by name, it sees SEL unset."""
    srcs = [n for n in range(1, case.n + 1) if case.names[n] == pname and not any(n in case.kids[p] for p in case.kids)]
    if len(srcs) > 1:
        raise Unrealizable("two root packages with the same name")
    return "${SEL:-%d}" % srcs[0] if srcs else "${SEL:-0}"


def write_project(case, root, scms=True):
    """Real recipes for the case. Recipe = first name component, the rest is the multiPackage key.
    scms: give the checkout steps SCMs as well (never checked out here; they make the Jenkins and the local
    pre-run commands differ)."""
    os.makedirs(os.path.join(root, "recipes"))
    with open(os.path.join(root, "config.yaml"), "w") as f:
        f.write("bobMinimumVersion: \"0.25\"\n")
    bypkg = {}
    for n in range(1, case.n + 1):
        bypkg.setdefault(case.names[n], []).append(n)
    recipes = {}
    for pname in sorted(bypkg):
        recipes.setdefault(pname.split("-")[0], []).append(pname)
    for rname, pnames in recipes.items():
        out = ["root: True", "multiPackage:"]
        for pname in pnames:
            sel = sel_expr(case, pname)
            variants = bypkg[pname]
            key = pname[len(rname) + 1:]
            deps, tools = [], []
            has_sandbox = False
            for v in variants:
                cond = "$(eq,%s,%d)" % (sel, v)
                for c, k in zip(case.kids[v], case.kinds[v]):
                    use = {"a": "result", "t": "tools", "s": "sandbox"}[k]
                    deps.append("            - {name: %s, use: [%s], environment: {SEL: \"%d\"}, if: \"%s\"}" % (case.names[c], use, c, cond))
                    if k == "t":
                        tools.append("            - {name: t%d, if: \"%s\"}" % (c, cond))
                    has_sandbox = has_sandbox or k == "s"
            out.append("    \"%s\":" % key)
            out.append("        depends:" + (" []" if not deps else ""))
            out.extend(deps)
            if tools:
                out.append("        buildTools:")
                out.extend(tools)
            out.append("        provideTools:")
            for v in variants:
                out.append("            t%d: {path: \"bin\", libs: [\"lib\"], environment: {TOOLVAR_%d: \"tv%d\"}}" % (v, v, v))
            out.append("        provideSandbox: {paths: [\"/usr/bin\", \"/bin\"], mount: [\"/etc/hosts\"]}")
            out.append("        buildVars: [SEL, %s]" % ", ".join("TOOLVAR_%d" % c for c in range(1, case.n + 1)))
            out.append("        packageVars: [SEL]")
            out.append("        privateEnvironment: {PRIV: \"p-${SEL:-none}\"}")
            out.append("        packageVarsWeak: [PRIV]")
            if not has_sandbox:
                # a checkout step only where it does not change the order of getAllDepSteps()
                out.append("        checkoutDeterministic: True")
                out.append("        checkoutScript: |\n            echo src-%s > src.txt" % pname)
                if scms:
                    hx = hashlib.sha1(pname.encode()).hexdigest()
                    out.append("        checkoutSCM:")
                    out.append("            - {scm: git, url: \"file:///nonexistent/c20/%s.git\", dir: gitsrc, commit: \"%s\"}" % (pname, hx))
                    out.append("            - {scm: url, url: \"file:///nonexistent/c20/%s.bin\", dir: dl, digestSHA1: \"%s\", extract: False}" % (pname, hx))
            out.append("        buildScript: |\n            mkdir -p bin lib\n            echo \"build %s ${SEL:-} $#\" > bin/b.txt\n"
                       "            for i in \"${@:2}\" ; do cat $i/result.txt >> bin/b.txt ; done" % pname)
            out.append("        packageScript: |\n            mkdir -p bin lib\n            cp $1/bin/b.txt result.txt\n            echo \"pkg %s ${SEL:-}\" >> result.txt" % pname)
            if len(variants) % 2 == 0:
                out.append("        fingerprintIf: True\n        fingerprintScript: |\n            echo fp-%s" % pname)
        with open(os.path.join(root, "recipes", rname + ".yaml"), "w") as f:
            f.write("\n".join(out) + "\n")


def root_paths(case):
    """Package path of every root: a source by its name, any other root through one chain of parents."""
    parents = {}
    for p in sorted(case.kids):
        for c in case.kids[p]:
            parents.setdefault(c, p)
    res = []
    for r in case.roots:
        path = [case.names[r]]
        x = r
        while x in parents:
            x = parents[x]
            path.insert(0, case.names[x])
        res.append("/".join(path))
    return res


def node_of(case, step):
    """Abstract node of a live / deserialized package step: package name + SEL."""
    name = step.getPackage().getName()
    sel = step.getEnv().get("SEL")
    if sel is None:
        c = [n for n in range(1, case.n + 1) if case.names[n] == name and not any(n in case.kids[p] for p in case.kids)]
        if len(c) != 1:
            raise common_error("cannot map package %s without SEL" % name)
        return c[0]
    n = int(sel)
    if case.names.get(n) != name:
        raise common_error("package %s carries SEL=%s" % (name, sel))
    return n


def common_error(msg):
    return RuntimeError("harness: " + msg)


def live_graph(case, roots):
    """The package graph as the real Bob objects present it (generator validity check)."""
    kids, seen, todo = {}, {}, list(roots)
    while todo:
        ps = todo.pop()
        n = node_of(case, ps)
        if n in seen:
            continue
        seen[n] = ps
        ch = []
        b = ps.getPackage().getBuildStep()
        for a in b.getArguments():
            if a.isValid() and a.isPackageStep():
                ch.append((node_of(case, a), "a", a))
        for nm, t in sorted(ps.getTools().items()):
            ch.append((node_of(case, t.getStep()), "t", t.getStep()))
        if ps.getSandbox() is not None:
            ch.append((node_of(case, ps.getSandbox().getStep()), "s", ps.getSandbox().getStep()))
        kids[n] = [(c, k) for c, k, _ in ch]
        todo.extend(st for _, _, st in ch)
    return kids, seen


def real_task(arg):
    idx, d, seed, keep = arg
    common.use_repo()
    case = Case(d)
    work = common.scratch("vf-c20-")
    res = {"idx": idx, "status": "ok", "viol": [], "drift": [], "steps_compared": 0, "fields_compared": 0,
           "jobs": 0, "nontriv": [], "sample": None}
    cwd = os.getcwd()
    try:
        proj = os.path.join(work, "proj")
        try:
            write_project(case, proj)
        except Unrealizable as e:
            res["status"] = "unrealizable: %s" % e
            return res
        os.chdir(proj)
        _real(case, proj, seed, res)
    finally:
        os.chdir(cwd)
        if not keep:
            shutil.rmtree(work, ignore_errors=True)
    return res


def _reset_state():
    import bob.state as bstate
    try:
        bstate.finalize()
    except Exception:
        pass
    bstate._BobState.instance = None


def _real(case, proj, seed, res):
    import bob.cmds.jenkins.jenkins as jmod
    import bob.errors as errors
    from bob.input import RecipeSet
    from bob.state import BobState, JenkinsConfig
    install_recorder(jmod)
    _reset_state()
    rng = random.Random(seed * 7919 + res["idx"])
    cfg = JenkinsConfig("http://localhost:1/", "c20c-20c2")
    cfg.roots = root_paths(case)
    if case.iso:
        cfg.setOption("jobs.isolate", case.iso_regex(), lambda m: (_ for _ in ()).throw(RuntimeError(m)))
    cfg.shortdescription = bool(rng.randrange(2))
    BobState().addJenkins("vf", cfg)
    recipes = RecipeSet()
    recipes.defineHook("jenkinsNameFormatter", jmod.jenkinsNameFormatter)
    del _rec[:]
    devnull = open(os.devnull, "w")
    olderr, oldout = sys.stderr, sys.stdout
    sys.stderr = sys.stdout = devnull
    try:
        try:
            jobs = jmod.genJenkinsJobs(recipes, "vf")
        except errors.ParseError as e:
            res["status"] = "bob rejects the recipes: %s" % str(e).splitlines()[0]
            return
        except Exception as e:
            import traceback
            tb = traceback.extract_tb(e.__traceback__)[-1]
            res["viol"].append(("job-generation-crash:%s" % type(e).__name__ + ("" if case.m_names_unique else ":duplicate-name"),
                                {"error": "%s: %s" % (type(e).__name__, e), "at": "%s:%d %s" % (os.path.basename(tb.filename), tb.lineno, tb.name),
                                 "case": case.brief(), "root_paths": cfg.roots, "level": "real recipes"}))
            return
        # ---- generator validity: the live package graph is the abstract one
        alljobsteps = [s for j in jobs.values() for s in j.getPackageSteps()]
        lkids, lsteps = live_graph(case, alljobsteps)
        want = {n: list(zip(case.kids[n], case.kinds[n])) for n in reach(case.kids, case.roots)}
        got = {n: lkids[n] for n in lkids}
        if {n: sorted(v) for n, v in want.items()} != {n: sorted(v) for n, v in got.items() if n in want}:
            # not an error of the code under test when packages are missing from all jobs; the oracle below decides
            if set(want) <= set(got):
                raise common_error("generated recipes do not realise the case: want %s got %s" % (want, got))
        # ---- P oracle on the real jobs
        job_pkgs = {name: {node_of(case, s) for s in j.getPackageSteps()} for name, j in jobs.items()}
        upstream = {name: set(j.getUpstreamJobs()) for name, j in jobs.items()}
        try:
            bo = ("ok", jmod.genJenkinsBuildOrder(jobs))
        except errors.ParseError as e:
            bo = ("cyclic", str(e))
        vid2node = {jmod.getJenkinsVariantId(s): n for n, s in lsteps.items()}
        abstract = []
        for j in alive_abstract_jobs():
            if all(v in vid2node for v in j.pkgs):
                nodes = frozenset(vid2node[v] for v in j.pkgs)
                abstract.append((nodes, {nm for nm, pk in job_pkgs.items() if pk & nodes}))
        ek = {(p, c): k for p, c, k in case.edges()}
        for sig, det in p_oracle(case.kids, ek, case.roots, job_pkgs, upstream, abstract or None, bo):
            sig = classify_dup(case, sig, det)
            res["viol"].append((sig, dict(det, case=case.brief(), level="real recipes")))
        res["jobs"] = len(jobs)
        if not res["viol"]:
            part = {name: frozenset(p) for name, p in job_pkgs.items()}
            if part != case.m_jobs:
                res["drift"].append("real recipes: jobs %s, model %s for %s" % (
                    {a: sorted(b) for a, b in part.items()}, {a: sorted(b) for a, b in case.m_jobs.items()}, case.brief()))
        # ---- (B-iii) faithfulness of the embedded job specification
        if bo[0] == "ok":
            try:
                faithful(case, proj, cfg, jobs, bo[1], rng, res)
                upgrade_probe(case, sorted(alljobsteps, key=jmod_vid), res)
            except Exception as e:
                import traceback
                tb = traceback.extract_tb(e.__traceback__)
                inbob = [t for t in tb if "/pym/bob/" in t.filename]
                if not inbob:
                    raise
                res["viol"].append(("spec-unusable:%s" % type(e).__name__,
                                    {"error": "%s: %s" % (type(e).__name__, e), "at": "%s:%d %s" % (os.path.basename(inbob[-1].filename), inbob[-1].lineno, inbob[-1].name),
                                     "case": case.brief(), "level": "job specification"}))
        res["sample"] = {"case": case.brief(), "root_paths": cfg.roots,
                         "jobs": {n: sorted(p) for n, p in job_pkgs.items()}, "upstream": {n: sorted(u) for n, u in upstream.items()},
                         "build_order": bo[1] if bo[0] == "ok" else bo[0], "steps_compared": res["steps_compared"]}
        kinds = {k for ks in case.kinds.values() for k in ks}
        res["nontriv"] = ["real:%d:%s:%s" % (case.n, "".join(sorted(kinds)), len(jobs) < len(lsteps))]
    finally:
        sys.stderr, sys.stdout = olderr, oldout
        devnull.close()
        _reset_state()


# --------------------------------------------------------------------------------------------
# (B-iii) job specification vs live steps

STEP_GETTERS = ["getVariantId", "isValid", "isShared", "getWorkspacePath", "stablePaths", "isCheckoutStep",
                "isBuildStep", "isPackageStep", "isRelocatable"]
FULL_GETTERS = ["_isFingerprinted", "getDigestScript", "getEnv", "getJenkinsPreRunCmds", "getPostRunCmds",
                "getSetupScript", "getMainScript", "getUpdateScript", "_getFingerprintScript", "jobServer",
                "getLabel", "isDeterministic", "isUpdateDeterministic", "hasNetAccess", "getAuditFileNames"]
# derived by bob.intermediate.StepIR itself: compared with the step a local `bob build` executes
EXEC_GETTERS = ["getPaths", "getLibraryPaths", "getExecPath", "getStoragePath"]


def norm(x):
    if isinstance(x, bytes):
        return x.hex()
    if isinstance(x, (list, tuple)):
        return [norm(i) for i in x]
    if isinstance(x, dict):
        return {str(k): norm(v) for k, v in sorted(x.items())}
    if isinstance(x, (set, frozenset)):
        return sorted(norm(i) for i in x)
    return x


def pseudo_bid(step):
    """Supplied build-id of a dependency: a function of its identity only (same for live and deserialized steps)."""
    return hashlib.sha1(b"bid" + step.getVariantId() + step.getWorkspacePath().encode()).digest()


def faithful(case, proj, cfg, jobs, order, rng, res):
    import asyncio
    import xml.etree.ElementTree as ET
    from bob.cmds.jenkins.exec import Spec, getDependencies
    from bob.cmds.build.build import ExecutableStep, LazyIR
    from bob.languages import StepSpec
    from bob.utils import getPlatformTag
    from bob.archive import JenkinsArchive

    def diff(job, what, live, ir, step=None):
        if norm(live) != norm(ir):
            field = re.sub(r"[^A-Za-z]", "", what.split(":")[0])
            res["viol"].append(("spec-differs:" + field, {
                "job": job, "what": what, "live": repr(norm(live))[:600], "job_spec": repr(norm(ir))[:600],
                "step": step and (step.getPackage().getName() + "/" + step.getLabel()), "case": case.brief(),
                "level": "job specification"}))
        res["fields_compared"] += 1

    def run(coro):
        loop = asyncio.new_event_loop()
        try:
            return loop.run_until_complete(coro)
        finally:
            loop.close()

    async def calc_vid(steps):
        return [s.getVariantId() for s in steps]

    async def calc_bid(steps):
        return [pseudo_bid(s) for s in steps]

    for name in order:
        job = jobs[name]
        # the specification exactly as the build node gets it
        xml = job.dumpXML(None, cfg, "2026-01-01")
        cmd = ET.fromstring(xml).find("./builders/hudson.tasks.Shell/command").text
        specfile = os.path.join(proj, "..", "spec-%s.txt" % name)
        with open(specfile, "w") as f:
            f.write(cmd)
        ir = Spec(specfile).execIR
        roots = ir.getRoots()
        live_roots = sorted(job.getPackageSteps(), key=lambda s: jmod_vid(s))
        diff(name, "roots", sorted(jmod_vid(s) for s in live_roots), sorted(jmod_vid(s) for s in roots))
        irbyvid = {jmod_vid(s): s for s in roots}
        for lps in live_roots:
            ips = irbyvid.get(jmod_vid(lps))
            if ips is None:
                continue
            lp, ip = lps.getPackage(), ips.getPackage()
            for g in ("getName", "getStack", "getMetaEnv"):
                diff(name, "package." + g, getattr(lp, g)(), getattr(ip, g)(), lps)
            diff(name, "recipe.getName", lp.getRecipe().getName(), ip.getRecipe().getName(), lps)
            diff(name, "recipe.scriptLanguage", lp.getRecipe().scriptLanguage.index.value, ip.getRecipe().scriptLanguage.index.value, lps)
            for ls, is_ in ((lp.getCheckoutStep(), ip.getCheckoutStep()), (lp.getBuildStep(), ip.getBuildStep()), (lps, ips)):
                res["steps_compared"] += 1
                if not ls.isValid():
                    # placeholder of a missing checkout/build step: never executed; all placeholders of a job share
                    # one variant-id and therefore one entry of the specification (package and pseudo path of another one)
                    diff(name, "isValid", False, is_.isValid(), ls)
                    continue
                for g in STEP_GETTERS:
                    diff(name, g, getattr(ls, g)(), getattr(is_, g)(), ls)
                diff(name, "partial", False, is_.partial, ls)
                for g in FULL_GETTERS:
                    diff(name, g, getattr(ls, g)(), getattr(is_, g)(), ls)
                # tools / sandbox / arguments with the identity, location and kind of what they refer to
                def ref(st):
                    if not st.isValid():
                        return ("invalid",)
                    return (st.getVariantId(), st.getWorkspacePath(), st.isValid(), st.getPackage().getName(),
                            st.isRelocatable(), st.isShared(), st.getSandbox() is not None)
                diff(name, "getTools", {n: (t.getPath(), t.getLibs(), ref(t.getStep())) for n, t in ls.getTools().items()},
                     {n: (t.getPath(), t.getLibs(), ref(t.getStep())) for n, t in is_.getTools().items()}, ls)
                lsb, isb = ls.getSandbox(), is_.getSandbox()
                diff(name, "getSandbox", lsb and (lsb.getPaths(), lsb.getMounts(), lsb.getUser(), ref(lsb.getStep())),
                     isb and (isb.getPaths(), isb.getMounts(), isb.getUser(), ref(isb.getStep())), ls)
                diff(name, "getArguments", [ref(a) for a in ls.getArguments()], [ref(a) for a in is_.getArguments()], ls)
                diff(name, "getAllDepSteps", [ref(a) for a in ls.getAllDepSteps()], [ref(a) for a in is_.getAllDepSteps()], ls)
                if ls.isCheckoutStep():
                    diff(name, "hasLiveBuildId", ls.hasLiveBuildId(), is_.hasLiveBuildId(), ls)
                    diff(name, "getScmDirectories", ls.getScmDirectories(), is_.getScmDirectories(), ls)
                    # "__source" is the human-readable origin used in error messages only (it grows on re-parsing)
                    def props(x):
                        return {k: v for k, v in x.getProperties(True).items() if k != "__source"}
                    diff(name, "getScmList", [props(x) for x in ls.getScmList()], [props(x) for x in is_.getScmList()], ls)
                # what is executed: the executable step specification, build node vs local build
                local = ExecutableStep.fromStep(ls, LazyIR)
                for g in EXEC_GETTERS:
                    diff(name, g, getattr(local, g)(), getattr(is_, g)(), ls)
                sl = json.loads(StepSpec.fromStep(local, None, [], isJenkins=False).toString())
                sj = json.loads(StepSpec.fromStep(is_, None, [], isJenkins=True).toString())
                for k in ("isJenkins", "preRunCmds"):
                    sl.pop(k), sj.pop(k)
                for k in sorted(set(sl) | set(sj)):
                    diff(name, "StepSpec." + k, unplace(sl.get(k)), unplace(sj.get(k)), ls)
                # Variant-Id recomputed from the deserialized data; must be the recipe-level one (bob.input digest)
                diff(name, "variant-id:recomputed", ls._coreStep.getDigest(lambda cs: cs.variantId), run(is_.getDigestCoro(calc_vid)), ls)
                diff(name, "variant-id:stored", ls.getVariantId(), run(is_.getDigestCoro(calc_vid)), ls)
                # Build-Id for supplied dependency build-ids: build node vs local build (bob build uses ExecutableStep)
                fp = hashlib.sha1(b"fp" + ls.getVariantId()).digest() if ls._isFingerprinted() else b""
                for relax in (True, False):
                    diff(name, "build-id:relaxTools=%s" % relax,
                         run(local.getDigestCoro(calc_bid, fingerprint=fp, platform=getPlatformTag(), relaxTools=relax)),
                         run(is_.getDigestCoro(calc_bid, fingerprint=fp, platform=getPlatformTag(), relaxTools=relax)), ls)
                diff(name, "build-id:independent", independent_build_id(ls, fp, getPlatformTag()),
                     run(is_.getDigestCoro(calc_bid, fingerprint=fp, platform=getPlatformTag(), relaxTools=False)), ls)
        # what the build node expects from upstream jobs and where
        deps = getDependencies(ir)
        live_deps = {}
        for lps in live_roots:
            for st in (lps, lps.getPackage().getBuildStep(), lps.getPackage().getCheckoutStep()):
                if st.isValid():
                    for dps in st.getAllDepSteps():
                        if dps.isValid() and dps.isPackageStep() and jmod_vid(dps) not in irbyvid:
                            live_deps[jmod_vid(dps)] = dps
        diff(name, "getDependencies", sorted((JenkinsArchive.buildIdName(s), JenkinsArchive.tgzName(s), s.getWorkspacePath()) for s in live_deps.values()),
             sorted((JenkinsArchive.buildIdName(s), JenkinsArchive.tgzName(s), s.getWorkspacePath()) for s in deps))
        # workspaces the node may keep: the built steps, their dependencies and (recorded with every
        # step) the sandboxes of those
        live_st = []
        for lps in live_roots:
            for st in (lps, lps.getPackage().getBuildStep(), lps.getPackage().getCheckoutStep()):
                live_st.append(st)
                if st.isValid():
                    live_st.extend(st.getAllDepSteps())
        live_ws, todo = set(), live_st
        while todo:
            st = todo.pop()
            if st.isValid() and st.getWorkspacePath() not in live_ws:
                live_ws.add(st.getWorkspacePath())
                if st.getSandbox() is not None:
                    todo.append(st.getSandbox().getStep())
        diff(name, "getAllWorkspaces", sorted(live_ws), sorted(w for w in set(ir.getAllWorkspaces()) if not w.startswith("/invalid/")))
        diff(name, "envWhiteList", sorted(live_roots[0].getPackage().getRecipe().getRecipeSet().envWhiteList()),
             sorted(ir.getRecipeSet().envWhiteList()))


def unplace(x):
    """The pseudo paths of placeholder steps ("/invalid/exec/path/of/<package>") carry no information."""
    if isinstance(x, str):
        return re.sub(r"^/invalid/(exec|workspace)/path/of/.*$", "/invalid", x)
    if isinstance(x, list):
        if len(x) == 2 and isinstance(x[1], str) and x[1].startswith("/invalid/"):
            return ["(placeholder)", "/invalid"]        # (package name, pseudo path) in BOB_ALL_PATHS
        return [unplace(i) for i in x]
    return x


def upgrade_probe(case, live_steps, res):
    """A specification that first holds a package as a mere dependency and then as a built package (what a job
    building a package together with one of its dependencies needs): the partial entry has to be upgraded."""
    from bob.cmds.jenkins.intermediate import PartialIR
    for x in live_steps:
        deps = [d for d in x.getAllDepSteps() + x.getPackage().getBuildStep().getAllDepSteps()
                if d.isValid() and d.isPackageStep()]
        if not deps:
            continue
        y = deps[0]
        try:
            ir = PartialIR()
            ir.add(x)
            ir.add(y)
            ir2 = PartialIR.fromData(json.loads(json.dumps(ir.toData(), sort_keys=True)))
            got = {jmod_vid(r): (r.partial, r.getPackage().getBuildStep().getMainScript(), r.getMainScript()) for r in ir2.getRoots()}
        except Exception as e:
            import traceback
            tb = [t for t in traceback.extract_tb(e.__traceback__) if "/pym/bob/" in t.filename]
            if not tb:
                raise
            res["viol"].append(("spec-upgrade-path:%s" % type(e).__name__,
                                {"error": "%s: %s" % (type(e).__name__, e), "at": "%s:%d %s" % (os.path.basename(tb[-1].filename), tb[-1].lineno, tb[-1].name),
                                 "built": x.getPackage().getName(), "then_built": y.getPackage().getName(), "case": case.brief(),
                                 "level": "job specification"}))
            return
        want = {jmod_vid(r): (False, r.getPackage().getBuildStep().getMainScript(), r.getMainScript()) for r in (x, y)}
        res["fields_compared"] += 1
        if got != want:
            res["viol"].append(("spec-upgrade-path:differs", {"live": repr(want)[:600], "job_spec": repr(got)[:600],
                                                              "case": case.brief(), "level": "job specification"}))
        return


def jmod_vid(step):
    vid = step.getVariantId()
    sb = step.getSandbox()
    return (vid + sb.getStep().getVariantId()).hex() if sb else vid.hex()


def independent_build_id(step, fingerprint, platform):
    """Build-Id of a live bob.input step for the supplied dependency build-ids, computed from the public
    getters with the documented digest layout (independent of bob.intermediate)."""
    import struct
    from bob.input import DigestHasher
    h = DigestHasher()
    h.update(platform)
    h.fingerprint(fingerprint)
    h.update(b'\x00' * 20)
    script = step.getDigestScript()
    if script:
        h.update(struct.pack("<I", len(script)))
        h.update(script.encode("utf8"))
    else:
        h.update(b'\x00\x00\x00\x00')
    tools = sorted(step.getTools().items())
    h.update(struct.pack("<I", len(tools)))
    for name, tool in tools:
        h.update(DigestHasher.sliceRecipes(pseudo_bid(tool.getStep())))
        h.update(struct.pack("<II", len(tool.getPath()), len(tool.getLibs())))
        h.update(tool.getPath().encode("utf8"))
        for l in tool.getLibs():
            h.update(struct.pack("<I", len(l)))
            h.update(l.encode("utf8"))
    env = step._coreStep.digestEnv
    h.update(struct.pack("<I", len(env)))
    for key, val in sorted(env.items()):
        h.update(struct.pack("<II", len(key), len(val)))
        h.update((key + val).encode("utf8"))
    args = [a for a in step.getArguments() if a.isValid()]
    h.update(struct.pack("<I", len(args)))
    for a in args:
        d = pseudo_bid(a)
        h.update(DigestHasher.sliceRecipes(d))
        h.fingerprint(DigestHasher.sliceHost(d))
    return h.digest()


INVS = ["TypeOK", "Acyclic", "AcyclicFinal", "BuildOrderExists", "UniqueNames", "EveryPackageInExactlyOneJob",
        "JobDependsOnDepsJobs", "ChildsComplete", "PrefixNonEmpty"]
ACTIONS = ["PickChildren", "PickName", "PickIso", "PickRoots", "Discover", "TryMergeSkip", "TryMergeJoin",
           "PrefixNames", "Number", "Populate", "BuildOrder"]
REACH = ["ReachSkipThenJoin", "ReachNumbered", "ReachPrefixNamed", "ReachPropagation"]


def interesting(d):
    """Weight for choosing the cases that become real projects."""
    w = 1
    acts = {x[0] for x in d["h"]}
    w += 3 * len(acts) + (4 if len(acts) == 2 else 0)
    kinds = {k for row in d["d"] for _, k in row}
    w += 3 * len(kinds - {"a"})
    w += 2 if d["iso"] else 0
    w += 2 if len(set(d["nm"])) < len(d["nm"]) else 0
    w += d["n"]
    return w


def main():
    a = common.args(PROP)
    rep = evidence.Report(PROP, a.tier, a.seed)
    by_sig = rep.extra.setdefault("violations_by_signature", {})
    report = rep.violation

    def violation(sig, detail):      # every violation is counted, the first three of a signature are written out
        by_sig[sig] = by_sig.get(sig, 0) + 1
        if by_sig[sig] <= 3:
            report(sig, detail)
    rep.violation = violation
    rep.rule = ("traces = distinct TLC-generated cases (labelled package DAG, package names, isolate set, root list) "
                "replayed into the real JobNameCalculator/_genJenkinsJobs/genJenkinsBuildOrder; evaluations = real "
                "executions (duck-typed: 6 per case; real recipe projects; compared fields of job specifications); "
                "non-trivial = distinct (size, merge decisions skip/join, prefix/numbered naming, isolate, edge kinds) classes")
    rep.assumptions = [
        "package names are lower-case words of single-character components joined by '-' (no names that collide only after "
        "the [^a-zA-Z0-9-_] -> '_' / lower() mangling of getJobInternalName; no dependency aliases)",
        "the duck-typed replay presents checkout/build/package steps with the getAllDepSteps() composition of bob.input.Step",
        "Bob's own input rules bound the graphs: a package name occurs once per dependency path, once per dependency list, "
        "roots are addressed by name (input.py 2518, 2643)",
        "no Jenkins server; the XML around the embedded specification is not checked"]
    quick = a.tier == "quick"
    rng = random.Random(a.seed)
    if a.replay:
        return replay_one(a, rep)
    stage = rep.extra.setdefault("stage_wall_s", {})
    t_start = time.time()
    # TLC meta directories and everything else temporary of this run live in one private scratch directory
    import tempfile
    tempfile.tempdir = common.scratch("vf-c20-tmp-")

    # ---- (A) exhaustive design check, coverage, vacuity; (B) generation.  All TLC runs of this check:
    # name -> (config, simulate, coverage).  The generation configs check the invariants as well.
    runs = [("A", "JenkinsJobs.cfg", None, True)]
    if not quick:
        runs.append(("A2", "JenkinsJobs_thorough.cfg", None, False))
    runs += [("reach:" + inv, "JenkinsJobs_reach_%s.cfg" % inv, None, False) for inv in REACH]
    # package names that equal a counting suffix name ("a-1", "a-2"): the numbering has to skip taken names
    # (fix cd7a0eb); the numbering without that check is kept as a weakening that must violate UniqueNames
    runs.append(("suffix", "JenkinsJobs_suffix.cfg", None, False))
    runs.append(("weak", "JenkinsJobs_weak_NumberNoCollisionCheck.cfg", None, False))
    gens = [("JenkinsJobs_gen.cfg", None), ("JenkinsJobs_gen_names.cfg" if quick else "JenkinsJobs_gen_names_thorough.cfg", None),
            ("JenkinsJobs_gen_topo5.cfg" if quick else "JenkinsJobs_gen_topo5_thorough.cfg", None),
            ("JenkinsJobs_gen_topo6.cfg", None), ("JenkinsJobs_gen_suffix.cfg", None),
            ("JenkinsJobs_gen_sim.cfg", 6000 if quick else 40000)]     # random walks in total
    if not quick:
        gens.append(("JenkinsJobs_gen_suffix_thorough.cfg", None))
    runs += [("gen:" + cfg, cfg, sim, False) for cfg, sim in gens]

    # Mutation self-tests may reuse the TLC results of an earlier run (VF_C20_TLC_CACHE=<dir>): they depend on the
    # specification, the configs and the seed only, never on the Bob tree under test. Unset = TLC always runs.
    cache = os.environ.get("VF_C20_TLC_CACHE")

    def one(run):
        name, cfg, sim, cov = run
        t0 = time.time()
        cfile = cache and os.path.join(cache, "%s-%s-%s.pickle" % (cfg, sim, a.seed if sim else "x"))
        if cfile and os.path.exists(cfile):
            with open(cfile, "rb") as f:
                r = pickle.load(f)
            rep.extra.setdefault("tlc_results_reused_from_cache", []).append(cfg)
            return name, r, time.time() - t0
        r = one_run(cfg, sim, cov)
        if cfile:
            os.makedirs(cache, exist_ok=True)
            r.out = r.out[-4000:]
            with open(cfile + ".tmp", "wb") as f:
                pickle.dump(r, f)
            os.replace(cfile + ".tmp", cfile)
        return name, r, time.time() - t0

    def one_run(cfg, sim, cov):
        if sim:
            w = NW // 2 if NW >= 16 else NW      # TLC's num is per worker
            r = tlc.run("JenkinsJobs", cfg, workers=w, simulate="num=%d" % max(1, sim // w), depth=40, seed=a.seed + 1, timeout=30000)
        else:
            r = tlc.run("JenkinsJobs", cfg, workers=(NW // 2 if NW >= 16 else NW), coverage=cov, timeout=30000)
        return r

    # big ones first; a few JVMs side by side (start-up and the sequential set-up levels overlap)
    big = {"A2": 0, "gen:JenkinsJobs_gen_sim.cfg": 1, "gen:JenkinsJobs_gen_topo5_thorough.cfg": 2, "A": 3}
    runs.sort(key=lambda r: big.get(r[0], 9))
    results = {}
    with concurrent.futures.ThreadPoolExecutor(4 if NW >= 16 else 1) as ex:
        for name, r, wall in ex.map(one, runs):
            results[name] = r
            stage["tlc:" + name] = round(wall, 1)
    res = results["A"]
    rep.add_tlc(res, "JenkinsJobs.cfg exhaustive (+coverage)")
    if res.violated:
        rep.violation("model:" + res.violated, {"cex": res.cex[-4:]})
    tlc.require_coverage(res, ACTIONS, "JenkinsJobs.cfg")
    rep.extra["action_coverage"] = {k: v[1] for k, v in res.coverage.items() if k in ACTIONS}
    if not quick:
        res = results["A2"]
        rep.add_tlc(res, "JenkinsJobs_thorough.cfg exhaustive")
        if res.violated:
            rep.violation("model:" + res.violated, {"cex": res.cex[-4:]})
    for inv in REACH:
        if results["reach:" + inv].violated != inv:
            raise tlc.TlcError("vacuity: %s not reachable" % inv)
    r3 = results["suffix"]
    rep.add_tlc(r3, "JenkinsJobs_suffix.cfg (packages named like numbered jobs)")
    if r3.violated:
        rep.violation("model:%s:suffix-universe" % r3.violated, {"cex": r3.cex[-2:]})
    if results["weak"].violated != "UniqueNames":
        raise tlc.TlcError("weakening NumberNoCollisionCheck is not rejected by UniqueNames (%s)" % results["weak"].violated)
    rep.extra["weakening_rejected"] = {"JenkinsJobs_weak_NumberNoCollisionCheck.cfg": "UniqueNames"}

    cases, seen, suffix_idx, sfx = [], set(), set(), []
    for cfg, sim in gens:
        g = results.pop("gen:" + cfg)
        if sim:   # vf.tlc does not read the statistics of simulation mode
            m = re.search(r"The number of states generated: (\d+)", g.out)
            g.generated = int(m.group(1)) if m else 0
            m = re.search(r"(\d+) traces generated", g.out)
            rep.extra["simulation"] = {"states_checked": g.generated, "traces": int(m.group(1)) if m else None}
        rep.add_tlc(g, cfg + (" -simulate num=%d" % sim if sim else " exhaustive, generation"))
        if g.violated:
            rep.violation("model:" + g.violated, {"cex": g.cex[-4:], "config": cfg})
        new = 0
        for d in g.printed:
            c = Case(d)
            k = c.key()
            if k not in seen:
                seen.add(k)
                if "suffix" in cfg:
                    suffix_idx.add(len(cases))
                    # the numbering had to skip a taken name: a numbered job next to a package called like one
                    if any(re.search(r"-\d$", nm) for nm in c.m_jobs) and any(re.search(r"-\d$", nm) for nm in d["nm"]):
                        sfx.append(len(cases))
                cases.append(d)
                new += 1
        rep.extra.setdefault("cases_generated", {})[cfg] = {"printed": len(g.printed), "new": new}
        del g
    stage["tlc_all"] = round(time.time() - t_start, 1)
    if len(cases) < (20000 if quick else 150000):
        raise tlc.TlcError("too few cases generated: %d" % len(cases))

    common.use_repo()
    import bob.cmds.jenkins.jenkins   # noqa: F401  (import before fork)
    import bob.cmds.jenkins.exec      # noqa: F401
    import bob.cmds.build.build       # noqa: F401
    import bob.input                  # noqa: F401

    # ---- (B-i) duck-typed replay of every case
    order = list(range(len(cases)))
    rng.shuffle(order)
    csz = 400
    chunks = [([cases[i] for i in order[b:b + csz]], a.seed) for b in range(0, len(order), csz)]
    suffix_cases = 0
    with mp.get_context("fork").Pool(NW) as pool:
        for r in pool.imap_unordered(duck_task, chunks):
            rep.traces += r["cases"]
            rep.evaluations += r["evals"]
            suffix_cases += r["suffix_cases"]
            for nt in r["nontriv"]:
                rep.nontriv(nt)
            for dr in r["drift"]:
                rep.model_drift(dr)
            for sig, det in r["viol"]:
                rep.violation(sig, det)
    stage["duck"] = round(time.time() - t_start - stage["tlc_all"], 1)
    rep.extra["duck_typed_cases"] = rep.traces
    rep.extra["duck_typed_executions"] = rep.evaluations
    rep.extra["cases_with_suffix_collision"] = suffix_cases

    # ---- (B-ii, B-iii) real recipes for a seed-chosen subset, weighted towards merges / tools / sandboxes
    nreal = 30 if quick else 300
    main_idx = [i for i in range(len(cases)) if i not in suffix_idx]
    weights = [interesting(cases[i]) ** 2 for i in main_idx]
    chosen = set()
    while len(chosen) < nreal:
        chosen.update(rng.choices(main_idx, weights, k=nreal - len(chosen)))
    # plus cases of the suffix universe where numbered jobs and packages named like numbered jobs meet
    rng.shuffle(sfx)
    tasks = [(i, cases[i], a.seed, a.keep) for i in sorted(chosen)] + [(i, cases[i], a.seed, a.keep) for i in sfx[:3 if quick else 12]]
    realized, skipped = 0, []
    with mp.get_context("fork").Pool(NW) as pool:
        for r in pool.imap_unordered(real_task, tasks):
            if r["status"] != "ok":
                skipped.append(r["status"])
                continue
            realized += 1
            rep.evaluations += 1 + r["fields_compared"]
            for nt in r["nontriv"]:
                rep.nontriv(nt)
            for dr in r["drift"]:
                rep.model_drift(dr)
            for sig, det in r["viol"]:
                rep.violation(sig, det)
            rep.extra["ir_steps_compared"] = rep.extra.get("ir_steps_compared", 0) + r["steps_compared"]
            rep.extra["ir_fields_compared"] = rep.extra.get("ir_fields_compared", 0) + r["fields_compared"]
            rep.extra["real_jobs_generated"] = rep.extra.get("real_jobs_generated", 0) + r["jobs"]
            if r["sample"] and r["sample"]["steps_compared"] > 6:
                rep.sample(r["sample"], limit=3)
    stage["real"] = round(time.time() - t_start - stage["tlc_all"] - stage["duck"], 1)
    rep.extra["real_projects"] = realized
    rep.extra["real_projects_skipped"] = skipped[:5]
    if realized < 0.8 * len(tasks):
        raise RuntimeError("only %d of %d cases could be realised as recipes: %s" % (realized, len(tasks), skipped[:3]))

    # ---- thorough: the job specifications executed on an emulated build node
    if not quick:
        jexec_stage(rep, cases, main_idx, weights, rng, a)

    if rep.drift:
        rep.level = "exploration"
    return rep.finish()


def replay_one(a, rep):
    """bin/check C20 --replay evidence/replay/C20-k.json: the recorded case once more through the real code
    (duck-typed and as a real recipe project; M's expectation is not available, so only the P oracle speaks)."""
    with open(a.replay) as f:
        rec = json.load(f)
    b = rec["detail"]["case"]
    n = b["n"]
    deps = {int(k): v for k, v in b["deps"].items()}
    rk = {v: k for k, v in KINDS.items()}
    d = {"n": n, "d": [[[c, rk[k]] for c, k in deps.get(i, [])] for i in range(1, n + 1)],
         "nm": [b["names"][str(i)] for i in range(1, n + 1)], "iso": b["isolate"], "r": b["roots"],
         "k": rec["detail"].get("ksel", 0), "o": [], "h": [], "j": [], "bo": "ok"}
    common.use_repo()
    import bob.cmds.jenkins.jenkins as jmod
    import bob.errors as errors
    case = Case(d)
    saved = jmod.PartialIR
    jmod.PartialIR = DummyIR
    install_recorder(jmod)
    try:
        v, part, bo = run_duck(case, case.kinds, False, jmod, errors)
    finally:
        jmod.PartialIR = saved
    rep.traces += 1
    rep.evaluations += 1
    print("duck-typed: jobs %s build order %s" % ({k: sorted(x) for k, x in (part or {}).items()}, bo))
    for sig, det in v:
        rep.violation(classify_dup(case, sig, det), dict(det, case=case.brief(), level="duck-typed"))
    r = real_task((0, d, a.seed, a.keep))
    print("real recipes: %s %s" % (r["status"], r["sample"]))
    rep.evaluations += 1 + r["fields_compared"]
    for sig, det in r["viol"]:
        rep.violation(sig, det)
    rep.level = "exploration"
    return rep.finish()


# --------------------------------------------------------------------------------------------
# thorough: the generated jobs executed on an emulated build node, compared with a local build

def extract_result(tgz, dest):
    """content/result.txt of a Bob artifact."""
    import tarfile
    with tarfile.open(tgz, "r:gz") as tar:
        for m in tar:
            if m.name == "content/result.txt":
                return tar.extractfile(m).read().decode()
    return None


def run_bob(args, cwd, extra_env=None, timeout=6000):
    env = common.clean_env(extra_env)
    env["PYTHONDONTWRITEBYTECODE"] = "1"
    old = os.umask(0o022)
    try:
        p = subprocess.run([common.PY, os.path.join(common.REPO, "bob")] + args, cwd=cwd, env=env, stdout=subprocess.PIPE,
                           stderr=subprocess.STDOUT, text=True, errors="replace", timeout=timeout)
    finally:
        os.umask(old)
    return p.returncode, p.stdout


def jexec_task(arg):
    idx, d, seed, keep = arg
    common.use_repo()
    case = Case(d)
    work = common.scratch("vf-c20x-")
    res = {"idx": idx, "status": "ok", "viol": [], "jobs_run": 0, "build_ids": 0, "sample": None}
    cwd = os.getcwd()
    try:
        proj = os.path.join(work, "proj")
        write_project(case, proj, scms=False)
        shutil.copytree(proj, os.path.join(work, "local"))
        os.chdir(proj)
        _jexec(case, work, proj, res)
    finally:
        os.chdir(cwd)
        if not keep:
            shutil.rmtree(work, ignore_errors=True)
    return res


def _jexec(case, work, proj, res):
    import shlex
    import xml.etree.ElementTree as ET
    import bob.cmds.jenkins.jenkins as jmod
    import bob.errors as errors
    from bob.input import RecipeSet
    from bob.state import BobState, JenkinsConfig
    from bob.archive import JenkinsArchive
    _reset_state()
    cfg = JenkinsConfig("http://localhost:1/", "c20c-20c2")
    cfg.roots = root_paths(case)
    cfg.sandbox = "no"          # no user namespaces on the emulated node
    BobState().addJenkins("vf", cfg)
    recipes = RecipeSet()
    recipes.defineHook("jenkinsNameFormatter", jmod.jenkinsNameFormatter)
    devnull = open(os.devnull, "w")
    olderr, oldout = sys.stderr, sys.stdout
    sys.stderr = sys.stdout = devnull
    try:
        try:
            jobs = jmod.genJenkinsJobs(recipes, "vf")
            order = jmod.genJenkinsBuildOrder(jobs)
        except errors.ParseError as e:
            res["status"] = "bob rejects: %s" % str(e).splitlines()[0]
            return
        xmls = {name: jobs[name].dumpXML(None, cfg, "2026-01-01") for name in order}
        produced = {name: [(node_of(case, s), s.getPackage().getName(), JenkinsArchive.buildIdName(s), JenkinsArchive.tgzName(s))
                           for s in jobs[name].getPackageSteps()] for name in order}
    finally:
        sys.stderr, sys.stdout = olderr, oldout
        devnull.close()
        _reset_state()

    def viol(sig, **det):
        res["viol"].append((sig, dict(det, case=case.brief(), level="emulated build node")))

    # ---- the build node: copy-artifact steps, the shell step with the embedded specification, artifact archiver
    store = os.path.join(work, "artifacts")
    jid = {}
    for name in order:
        root = ET.fromstring(xmls[name])
        ws = os.path.join(work, "node", name)
        os.makedirs(ws)
        os.makedirs(os.path.join(store, name))
        for b in root.find("builders"):
            if b.tag == "hudson.plugins.copyartifact.CopyArtifact":
                src = os.path.join(store, b.find("project").text)
                for f in b.find("filter").text.split():
                    if not os.path.exists(os.path.join(src, f)):
                        viol("node:artifact-not-provided-by-upstream", job=name, upstream=b.find("project").text, file=f)
                        return
                    shutil.copy2(os.path.join(src, f), ws)
            elif b.tag == "hudson.tasks.Shell":
                cmd = b.find("command").text
                first = cmd.partition("\n")[0]
                args = shlex.split(first[2:])
                if args[0] != "bob":
                    raise common_error("unexpected interpreter " + first)
                spec = os.path.join(work, "spec-" + name)
                with open(spec, "w") as f:
                    f.write(cmd)
                rc, out = run_bob(args[1:] + [spec], ws, {"JENKINS_HOME": os.path.join(work, "jhome"), "BUILD_TAG": "jenkins-%s-1" % name,
                                                         "NODE_NAME": "vf", "BUILD_URL": "http://localhost:1/job/%s/1/" % name, "WORKSPACE": ws})
                res["jobs_run"] += 1
                if rc != 0:
                    viol("node:job-failed", job=name, rc=rc, output=out[-1500:])
                    return
            else:
                raise common_error("unsupported builder " + b.tag)
        for f in root.find("publishers/hudson.tasks.ArtifactArchiver/artifacts").text.split(","):
            if not os.path.exists(os.path.join(ws, f)):
                viol("node:artifact-not-produced", job=name, file=f)
                return
            shutil.copy2(os.path.join(ws, f), os.path.join(store, name))
        for node, pname, bidf, tgzf in produced[name]:
            with open(os.path.join(store, name, bidf), "rb") as f:
                jid[node] = (f.read().hex(), extract_result(os.path.join(store, name, tgzf), work), pname)

    # ---- the originating project built locally; every artifact lands in a file archive under its build-id
    local = os.path.join(work, "local")
    arch = os.path.join(work, "archive")
    with open(os.path.join(local, "default.yaml"), "w") as f:
        f.write("archive:\n    backend: file\n    path: \"%s\"\n" % arch)
    rc, out = run_bob(["build", "--no-sandbox", "--upload", "-q"] + root_paths(case), local)
    if rc != 0:
        raise common_error("local build failed: " + out[-1500:])
    have = {}
    for dp, _, fns in os.walk(arch):
        for fn in fns:
            if fn.endswith("-1.tgz"):
                rel = os.path.relpath(os.path.join(dp, fn), arch).split(os.sep)
                have["".join(rel)[:-6]] = os.path.join(dp, fn)
    for node, (bid, result, pname) in sorted(jid.items()):
        res["build_ids"] += 1
        if bid not in have:
            viol("node:build-id-differs", package=pname, node=node, build_id_on_node=bid, local_build_ids=sorted(have)[:12])
        elif extract_result(have[bid], work) != result:
            viol("node:result-differs", package=pname, node=node, on_node=result, local=extract_result(have[bid], work))
    res["sample"] = {"case": case.brief(), "jobs_executed": order, "build_ids": {str(n): v[0] for n, v in jid.items()}}


def jexec_stage(rep, cases, main_idx, weights, rng, a):
    t0 = time.time()
    small = [(i, w) for i, w in zip(main_idx, weights) if cases[i]["n"] <= 5]
    chosen = set()
    while len(chosen) < 16:
        chosen.update(rng.choices([i for i, _ in small], [w for _, w in small], k=16 - len(chosen)))
    done = 0
    with mp.get_context("fork").Pool(min(NW, 8)) as pool:
        for r in pool.imap_unordered(jexec_task, [(i, cases[i], a.seed, a.keep) for i in sorted(chosen)]):
            if r["status"] != "ok":
                continue
            done += 1
            rep.evaluations += r["jobs_run"]
            rep.extra["node_jobs_executed"] = rep.extra.get("node_jobs_executed", 0) + r["jobs_run"]
            rep.extra["node_build_ids_compared"] = rep.extra.get("node_build_ids_compared", 0) + r["build_ids"]
            for sig, det in r["viol"]:
                rep.violation(sig, det)
            if r["sample"]:
                rep.sample(r["sample"], limit=5)
    rep.extra["node_projects"] = done
    rep.extra["stage_wall_s"]["node"] = round(time.time() - t0, 1)
    if done < 10:
        raise RuntimeError("emulated build node: only %d projects ran" % done)


if __name__ == "__main__":
    evidence.main_wrapper(main)
