#!/venv/bin/python
"""Stand-alone reproduction of C12/D1: a url SCM with a digest never replaces an existing file
whose digest does not match, so the workspace never converges to the recipe again.

    /venv/bin/python /verif/checks/repro_c12_url_digest.py          # against /repo (or $VERIF_REPO)

    checkoutSCM: {scm: url, url: file:///.../data.txt, digestSHA256: <sha of v0>, dir: aux}
    bob dev pkg                      -> ok, aux/data.txt = v0
    upstream replaces data.txt by v1, the recipe's digestSHA256 is updated to <sha of v1>
    bob dev pkg                      -> "SWITCH" succeeds (UrlScm.switch does nothing), then
                                        "SHA256 digest did not match" because UrlScm.invoke only
                                        downloads when the file is absent (url.py 718-733)
    bob dev pkg                      -> the same error, forever; the user never touched the workspace
    (a fresh checkout of the same recipe in an empty project works)

The same happens after a single failed/garbled download: the bad file is moved into place before
the digest is verified and is never fetched again.  Exit status 1 = defect present, 0 = not present.
"""
import hashlib
import os
import shutil
import subprocess
import sys
import tempfile

REPO = os.environ.get("VERIF_REPO", "/repo")
CONFIG = 'bobMinimumVersion: "0.16"\npolicies:\n  urlScmSeparateDownload: true\n  scmIgnoreUser: true\n  defaultFileMode: true\n'


def bob(proj, *args):
    env = {"PATH": "/venv/bin:/usr/local/bin:/usr/bin:/bin", "HOME": "/nonexistent", "LC_ALL": "C.UTF-8",
           "PYTHONPATH": os.path.join(REPO, "pym")}
    p = subprocess.run([sys.executable, os.path.join(REPO, "bob")] + list(args), cwd=proj, env=env,
                       stdout=subprocess.PIPE, stderr=subprocess.STDOUT, stdin=subprocess.DEVNULL, text=True)
    print("$ bob %s   -> exit %d\n%s" % (" ".join(args), p.returncode,
                                        "\n".join("    " + x for x in p.stdout.splitlines() if "rror" in x or "SWITCH" in x or "CHECKOUT" in x)))
    return p.returncode


def project(proj, url, data):
    os.makedirs(os.path.join(proj, "recipes"), exist_ok=True)
    with open(os.path.join(proj, "config.yaml"), "w") as f:
        f.write(CONFIG)
    with open(os.path.join(proj, "recipes", "pkg.yaml"), "w") as f:
        f.write('root: true\ncheckoutSCM:\n  scm: url\n  url: "%s"\n  digestSHA256: "%s"\n  dir: aux\n'
                'buildScript: "true"\npackageScript: "true"\n' % (url, hashlib.sha256(data).hexdigest()))


def main():
    work = tempfile.mkdtemp(prefix="vf-repro-c12-")
    try:
        up = os.path.join(work, "data.txt")
        url = "file://" + up
        proj = os.path.join(work, "proj")
        with open(up, "wb") as f:
            f.write(b"data v0\n")
        os.utime(up, (1600000000, 1600000000))
        project(proj, url, b"data v0\n")
        assert bob(proj, "dev", "pkg") == 0
        with open(up, "wb") as f:
            f.write(b"data v1\n")
        os.utime(up, (1600000100, 1600000100))
        project(proj, url, b"data v1\n")
        rc1 = bob(proj, "dev", "pkg")
        rc2 = bob(proj, "dev", "pkg")
        fresh = os.path.join(work, "fresh")
        project(fresh, url, b"data v1\n")
        rcf = bob(fresh, "dev", "pkg")
        ws = os.path.join(proj, "dev/src/pkg/1/workspace/aux/data.txt")
        content = open(ws, "rb").read() if os.path.exists(ws) else None
        print("workspace file: %r, fresh checkout exit %d" % (content, rcf))
        if rcf == 0 and (rc1 != 0 or rc2 != 0 or content != b"data v1\n"):
            print("DEFECT PRESENT: the untouched workspace does not converge (exit %d, %d) although a fresh checkout works" % (rc1, rc2))
            return 1
        print("not present")
        return 0
    finally:
        shutil.rmtree(work, ignore_errors=True)


if __name__ == "__main__":
    sys.exit(main())
