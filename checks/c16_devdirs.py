"""C16  Workspace directories separate variants; clean removes only garbage.

(A)    TLC checks specs/DevDirs.tla exhaustively (directory oracle refresh, release naming, builder
       prune rule, bob clean) + weakened-mechanism and reachability (vacuity) configs.
(B-i)  TLC-generated appear/disappear histories are replayed into the REAL
       bob.cmds.build.state.DevelopDirOracle (duck-typed package graph, real sqlite file, real
       LocalBuilder.developNameFormatter).  P oracle on the real assignment: Injective, Stable.
(B-ii) TLC-generated histories (ProjectChange / Prime / BuildDev / BuildRel / Clean(mode,src,dry)) are
       replayed end to end on generated multi-variant projects with real `bob dev`, `bob build`,
       `bob query-path`, `bob show`, `bob clean`.  P oracles: workspace paths across invocations,
       marker files (every script logs the markers it found at start), directory listings around clean,
       quiet rebuild after clean.

Verdict: only the P oracles on real executions print VIOLATION; numbering / deletion-set differences
between the code and the mechanism model are model_drift.
"""
import gc
import glob
import hashlib
import json
import multiprocessing as mp
import os
import random
import shutil
import sys
from concurrent.futures import ThreadPoolExecutor

from vf import common, tlc, evidence, bobrun, projgen

PROP = "C16"
WORKERS = int(os.environ.get("VF_WORKERS", "16") or 16)

WORLDS = {
    "multi": {"a-x": "a", "a-y": "a", "b": "b"},
    "one": {"a": "a"},
    "nested": {"a": "a", "a-x": "a"},
}
# package-script class: packages of one class have identical package scripts (a-x and b are twins)
PCLASS = {"a-x": "x", "a-y": "y", "b": "x", "a": "x"}
NESTED_PCLASS = {"a": "n", "a-x": "x"}

SIG_SHARED = "stable:shared-step-dir-renamed-after-first-user"
SIG_MOVED = "stable:dir-moved"


def pclass(world, pkg):
    return (NESTED_PCLASS if world == "nested" else PCLASS)[pkg]


# --------------------------------------------------------------------------------------------
# histories

def snapshots_of(hist):
    """[(proj, srcv, model_db | None)] at every Prime of a history (plus the final project)."""
    out = []
    proj, srcv, dirty = [], None, False
    for a in hist:
        if a["a"] == "ProjectChange":
            proj, srcv, dirty = a["proj"], a["srcv"], True
        elif a["a"] == "Prime":
            out.append((proj, srcv, a["db"]))
            dirty = False
    if dirty:
        out.append((proj, srcv, None))
    return out


def stable_signature(users_before, users_after, old, new):
    """users_*: package names using the key; old/new: paths"""
    base_old, base_new = old.split("/")[2], new.split("/")[2]
    if len(set(users_before) | set(users_after)) >= 2 and base_old != base_new:
        return SIG_SHARED
    return SIG_MOVED


# --------------------------------------------------------------------------------------------
# (B-i) the real DevelopDirOracle under a duck-typed package graph

class DRecipe:
    def __init__(self, name, pkgname):
        self.n, self.p = name, pkgname

    def getName(self):
        return self.n

    def getPackageName(self):
        return self.p


class DStep:
    def __init__(self, pkg, label, vid):
        self.pkg, self.label, self.vid, self.fmt = pkg, label, vid, None

    def getPackage(self):
        return self.pkg

    def getVariantId(self):
        return self.vid

    def getLabel(self):
        return self.label

    def isCheckoutStep(self):
        return self.label == "src"

    def isBuildStep(self):
        return self.label == "build"

    def isPackageStep(self):
        return self.label == "dist"

    def isValid(self):
        return self.vid is not None

    def getWorkspacePath(self):
        if self.vid is None:
            return "/invalid/workspace/path/of/" + self.pkg.getName()
        return self.fmt(self, {})


class DPackage:
    def __init__(self, ident, recipe, deps, vids):
        self.ident, self.recipe, self.deps = ident, recipe, deps
        self.steps = {k: DStep(self, k, vids.get(k)) for k in ("src", "build", "dist")}

    def _getId(self):
        return self.ident

    def getRecipe(self):
        return self.recipe

    def getName(self):
        return self.recipe.getPackageName()

    def getStack(self):
        return [self.getName()]

    def getPluginStates(self):
        return {}

    def getDirectDepSteps(self):
        return [d.steps["dist"] for d in self.deps]

    def getPackageStep(self):
        return self.steps["dist"]

    def getBuildStep(self):
        return self.steps["build"]

    def getCheckoutStep(self):
        return self.steps["src"]


class DPackages:
    def __init__(self, key, root):
        self.k, self.r = key, root

    def getCacheKey(self):
        return self.k

    def getRootPackage(self):
        return self.r


def _h(*a):
    return hashlib.sha1(repr(a).encode()).digest()


def abstract_vids(world, nv, pkg, v, srcv):
    """20-byte ids with exactly the equalities of the abstract model (twins coincide, the packages of a
    multiPackage share checkout and build step, package steps differ by package-script class)."""
    r = WORLDS[world][pkg]
    bv = (srcv[r] - 1) * nv + v
    return {"src": _h("src", srcv[r]), "build": _h("build", bv), "dist": _h("dist", pclass(world, pkg), bv)}, bv


def real_assignment(n, world, nv, proj, srcv):
    """Run the real oracle on the duck graph of (proj, srcv) in cwd; returns per instance
    (pkg, recipe, {kind: (vid hex, path)}, bv)."""
    from bob.cmds.build.state import DevelopDirOracle
    from bob.builder import LocalBuilder
    o = DevelopDirOracle(LocalBuilder.developNameFormatter, None)
    fmt = LocalBuilder.makeRunnable(o.getFormatter())
    pkgs, bvs = [], []
    for i, (p, v) in enumerate(proj):
        vids, bv = abstract_vids(world, nv, p, v, srcv)
        pkgs.append(DPackage(i + 1, DRecipe(WORLDS[world][p], p), [], vids))
        bvs.append(bv)
    root = DPackage(0, DRecipe("", ""), pkgs, {})
    allp = pkgs + [root]
    for p in allp:
        for st in p.steps.values():
            st.fmt = fmt
    try:
        o.prime(DPackages(b"snapshot-%d" % n, root))
        res = [(p.getName(), p.recipe.getName(),
                {k: (st.vid.hex(), st.getWorkspacePath()) for k, st in p.steps.items()}, bv)
               for p, bv in zip(pkgs, bvs)]
    finally:
        for p in allp:
            for st in p.steps.values():
                st.fmt = None
        # Bob has one oracle per process and never closes its sqlite connection; a pysqlite connection sits in a
        # reference cycle with its statement cache, so only the collector closes it (cheap: the pool workers
        # gc.freeze() the heap they inherited)
        del o, fmt
        gc.collect()
    return res


def model_path(d):
    return "dev/%s/%s/%d/workspace" % (d[1], d[2], d[3])


def replay_oracle_history(world, nv, hist):
    """-> dict(violations=[(sig, detail)], drift=[...], nontrivial=[...], primes=n)"""
    out = {"violations": [], "drift": [], "nontrivial": set(), "primes": 0}
    prev = {}          # key -> (path, users)
    for n, (proj, srcv, mdb) in enumerate(snapshots_of(hist)):
        inst = real_assignment(n, world, nv, proj, srcv)
        out["primes"] += 1
        cur, bypath = {}, {}
        for (pkg, rec, steps, bv) in inst:
            for kind, (vid, path) in steps.items():
                if not isinstance(path, str) or not path.startswith("dev/" + kind + "/"):
                    out["violations"].append(("oracle:no-directory-assigned", {"pkg": pkg, "kind": kind, "path": repr(path)}))
                    return out
                key = (rec, kind, vid)
                ent = cur.setdefault(key, (path, []))
                if ent[0] != path:
                    out["violations"].append(("oracle:same-step-two-directories", {"pkg": pkg, "kind": kind, "paths": [ent[0], path]}))
                    return out
                ent[1].append(pkg)
                bypath.setdefault((kind, path), set()).add((rec, vid))
        # P: Injective
        for (kind, path), users in bypath.items():
            if len(users) > 1:
                same_recipe = len({u[0] for u in users}) == 1
                out["violations"].append(("injective:dev-dir-shared-by-different-" + ("variants" if same_recipe else "recipes"),
                                          {"path": path, "users": sorted(users), "snapshot": n, "proj": proj, "srcv": srcv}))
                return out
        # P: Stable
        for key, (path, users) in cur.items():
            if key in prev and prev[key][0] != path:
                sig = stable_signature(prev[key][1], users, prev[key][0], path)
                out["violations"].append((sig, {"key": list(key), "before": prev[key][0], "after": path, "snapshot": n,
                                                "users_before": prev[key][1], "users_after": users,
                                                "history": [[s[0], s[1]] for s in snapshots_of(hist)[:n + 1]]}))
                out["nontrivial"].add("moved")
        # non-trivial shapes
        old_by_path = {v[0]: k for k, v in prev.items()}
        for key, (path, users) in cur.items():
            if key not in prev and path in old_by_path and old_by_path[path] not in cur:
                out["nontrivial"].add("reuse:" + key[1])
            if key in prev and len(cur) > len([k for k in cur if k in prev]):
                out["nontrivial"].add("kept+new:" + key[1])
            if len(set(users)) > 1:
                out["nontrivial"].add("shared-key:" + key[1])
        nums = {}
        for key, (path, users) in cur.items():
            nums.setdefault(path.rsplit("/", 2)[0], []).append((int(path.split("/")[-2]), key in prev))
        for base, l in nums.items():
            if any(not kept and any(k2 and n2 < n1 for n2, k2 in l) for n1, kept in l):
                out["nontrivial"].add("numbered-around")
        if len({k[2] for k in cur if k[1] == "build"}) < len({k for k in cur if k[1] == "build"}):
            out["nontrivial"].add("twins")
        # M: compare with the model's db
        if mdb is not None:
            want = {(e[0][0], e[0][1], e[0][2]): model_path(e[1]) for e in mdb}
            for (pkg, rec, steps, bv) in inst:
                for kind, num in (("src", srcv[rec]), ("build", bv)):
                    w = want.get((kind, rec, num))
                    if w != steps[kind][1]:
                        out["drift"].append("oracle: model assigns %s to %s/%s#%d, code %s" % (w, rec, kind, num, steps[kind][1]))
        prev = cur
    out["nontrivial"] = sorted(out["nontrivial"])
    return out


def _freeze():
    gc.freeze()


def probe_keep_rule():
    """Which transcription of DevelopDirOracle.__fmt applies to the code under test: "prefix" (a stored directory is
    kept only if it starts with the base directory of the step visited first) or "always" (proposed fix)."""
    work = common.scratch("c16-probe-")
    cwd = os.getcwd()
    os.chdir(work)
    try:
        sv = {"a": 1, "b": 1}
        h = [{"a": "ProjectChange", "proj": [["a-x", 1], ["a-y", 1]], "srcv": sv}, {"a": "Prime", "db": None},
             {"a": "ProjectChange", "proj": [["a-y", 1], ["a-x", 1]], "srcv": sv}, {"a": "Prime", "db": None}]
        r = replay_oracle_history("multi", 2, h)
    finally:
        os.chdir(cwd)
        shutil.rmtree(work, ignore_errors=True)
    sigs = [x[0] for x in r["violations"]]
    return "always" if not sigs else "prefix"


def oracle_task(arg):
    i, world, nv, hist = arg[:4]
    work = common.scratch("c16-or-")
    cwd = os.getcwd()
    os.chdir(work)
    try:
        r = replay_oracle_history(world, nv, hist)
    finally:
        os.chdir(cwd)
        shutil.rmtree(work, ignore_errors=True)
    r["i"] = i
    r["nontrivial"] = sorted(r["nontrivial"])
    return r


# --------------------------------------------------------------------------------------------
# (B-ii) generated multi-variant projects

SEEN = 'seen=""; for f in marker-* pmarker-*; do if [ -e "$f" ]; then seen="$seen $f"; fi; done'

LIB_BUILD = "\n".join([
    "# library build step",
    'own="E${E}-$(cat "$1/id.txt")"',
    SEEN,
    'echo "build|$PWD|marker-$own|$seen" >> "$VF_LOG/trace"',
    'echo "lib E=${E}" > out.txt',
    'cat "$1/a.txt" >> out.txt',
    'echo "$own" > label.txt',
    'touch "marker-$own"',
]) + "\n"


def lib_package(c):
    return "\n".join([
        "# package step, class %s" % c,
        'own="%s-$(cat "$1/label.txt")"' % c,
        SEEN,
        'echo "package|$PWD|pmarker-$own|$seen" >> "$VF_LOG/trace"',
        'cp "$1/out.txt" "$1/label.txt" .',
        'echo "$own" > plabel.txt',
        'touch "pmarker-$own"',
    ]) + "\n"


MID_BUILD = "\n".join([
    "# consumer build step",
    'own="m-$(cat "$2/plabel.txt")"',
    SEEN,
    'echo "build|$PWD|marker-$own|$seen" >> "$VF_LOG/trace"',
    'cat "$2/out.txt" > out.txt',
    'echo "$own" > label.txt',
    'touch "marker-$own"',
]) + "\n"

MID_PACKAGE = "\n".join([
    "# consumer package step",
    'own="$(cat "$1/label.txt")"',
    SEEN,
    'echo "package|$PWD|pmarker-$own|$seen" >> "$VF_LOG/trace"',
    'cp "$1/out.txt" .',
    'touch "pmarker-$own"',
]) + "\n"


def render(world, proj, srcv):
    """-> (files: relpath -> text | None, roots)"""
    W = WORLDS[world]
    files = {"config.yaml": projgen.CONFIG, "default.yaml": "whitelist: [VF_LOG]\n"}
    for k in (1, 2):
        files["src/s%d/a.txt" % k] = "source %d\n" % k
        files["src/s%d/id.txt" % k] = "s%d\n" % k
    for r in sorted(set(W.values())):
        pk = sorted(p for p in W if W[p] == r)
        sv = (srcv or {}).get(r, 1)
        y = ["checkoutSCM:", "  scm: import", "  url: src/s%d" % sv, "  prune: True",
             "buildVars: [E]", "buildScript: " + projgen.yaml_block(LIB_BUILD)]
        if pk == [r]:
            y += ["packageScript: " + projgen.yaml_block(lib_package(pclass(world, r)))]
        else:
            y += ["multiPackage:"]
            for p in pk:
                sub = p[len(r) + 1:] if p != r else ""
                y += ['  "%s":' % sub, "    packageScript: " + projgen.yaml_block(lib_package(pclass(world, p)), 6)]
        files["recipes/%s.yaml" % r] = "\n".join(y) + "\n"
    roots = []
    for i in range(4):
        if i < len(proj):
            p, v = proj[i]
            files["recipes/m%d.yaml" % i] = "\n".join([
                "root: true", "depends:", "  - name: %s" % p, "    environment: {E: \"%d\"}" % v,
                "buildScript: " + projgen.yaml_block(MID_BUILD),
                "packageScript: " + projgen.yaml_block(MID_PACKAGE)]) + "\n"
            roots.append("m%d" % i)
        else:
            files["recipes/m%d.yaml" % i] = None
    return files, roots


def expected_markers(world, pkg, v, sv):
    lab = "E%d-s%d" % (v, sv)
    c = pclass(world, pkg)
    return {"lib.build": "marker-" + lab, "lib.dist": "pmarker-%s-%s" % (c, lab), "mid.build": "marker-m-%s-%s" % (c, lab),
            "mid.dist": "pmarker-m-%s-%s" % (c, lab)}


def workspace_dirs(ws):
    """all workspace directories below dev/ and work/ -> sorted list of marker files in them"""
    res = {}
    for pat in ("dev/*/*/*/workspace", "work/*/*/*/workspace"):
        for d in glob.glob(os.path.join(ws, pat)):
            if os.path.isdir(d) and not os.path.islink(d):
                res[os.path.relpath(d, ws)] = sorted(n for n in os.listdir(d) if n.startswith(("marker-", "pmarker-")))
    return res


def project_tree(ws):
    """every file of the project directory except Bob's own bookkeeping files"""
    t = bobrun.walk_tree(ws) or {}
    return {k: v for k, v in t.items() if not k.split("/")[0].startswith(".bob-") and not k.startswith(".vf-")}


class Abort(Exception):
    pass


class E2E:
    def __init__(self, world, nv, hist, workdir, seed):
        self.world, self.nv, self.hist = world, nv, hist
        self.ws = os.path.join(workdir, "ws")
        self.log = os.path.join(workdir, "log")
        os.makedirs(self.ws)
        os.makedirs(self.log)
        self.violations, self.drift, self.nontrivial = [], [], set()
        self.invocations = 0
        self.steps_log = []
        self.proj, self.srcv, self.roots = [], {}, []
        self.known = {"dev": {}, "rel": {}}      # key -> (path, users) observed, key continuously present since
        self.built_ok = {"dev": False, "rel": False}
        self.rng = random.Random(seed)
        self._show = None
        self.model_db = None

    # -- plumbing ---------------------------------------------------------------------
    def viol(self, sig, **detail):
        detail["history"] = self.hist
        detail["log"] = self.steps_log[-25:]
        self.violations.append((sig, detail))

    def bob(self, argv, record=True):
        self.invocations += 1
        tr = os.path.join(self.log, "trace")
        if os.path.exists(tr):
            os.unlink(tr)
        r = bobrun.run_bob(self.ws, argv, env={"VF_LOG": self.log}, record=record, timeout=3000)
        lines = []
        if os.path.exists(tr):
            with open(tr) as f:
                lines = [l.rstrip("\n").split("|") for l in f if l.strip()]
        r.trace = lines
        self.steps_log.append((" ".join(argv)[:80], r.rc))
        return r

    def show(self):
        """package path -> recipe, package name, Variant-Ids as Bob computes them (cached per project state).
        Own process: `bob show` rewrites the package graph cache which a preceding query-path in the same
        process would still hold open."""
        if self._show is not None:
            return self._show
        targets = []
        for r in self.roots:
            targets += [r, r + "//*"]
        r = self.bob(["show", "--format=json"] + targets, record=False)
        if r.rc != 0:
            self.viol("invocation-failed:show", rc=r.rc, out=r.out[-3000:])
            raise Abort()
        doc = r.out
        start = doc.find("[\n")
        if start < 0:
            start = doc.find("{\n")
        data = json.loads(doc[start:])
        if isinstance(data, dict):
            data = [data]
        res = {}
        for e in data:
            m = e["meta"]
            res[m["package"]] = {"recipe": m["recipe"], "pkg": m["name"],
                                 "vids": {"src": m.get("checkoutVariantId"), "build": m.get("buildVariantId"),
                                          "dist": m.get("packageVariantId")}}
        self._show = res
        return res

    def observe(self, mode):
        """instances of the current project: name -> dict(recipe, pkg, vids{kind}, paths{kind: existing path})"""
        if not self.roots:
            return {}
        inst = {k: dict(v, paths={}) for k, v in self.show().items()}
        argv = []
        targets = []
        for r in self.roots:
            targets += [r, r + "//*"]
        for kind in ("src", "build", "dist"):
            if argv:
                argv.append("---")
            argv += ["query-path", "-q", "-f", "@P|{name}|%s|{%s}" % (kind, kind)] + (["--release"] if mode == "rel" else []) + targets
        r = self.bob(argv, record=False)
        if r.rc != 0:
            self.viol("invocation-failed:query-path", rc=r.rc, out=r.out[-3000:], mode=mode)
            raise Abort()
        for line in r.out.splitlines():
            f = line.strip().split("|")
            if len(f) == 4 and f[0] == "@P" and f[3]:
                if f[1] not in inst:
                    raise RuntimeError("query-path names %s unknown to bob show" % f[1])
                inst[f[1]]["paths"][f[2]] = f[3]
        return inst

    def keys_of(self, inst, mode):
        ks = {}
        for name, e in inst.items():
            for kind, vid in e["vids"].items():
                if vid:
                    k = (e["recipe"], kind, vid) if mode == "dev" else (kind, vid)
                    ks.setdefault(k, []).append(e["pkg"])
        return ks

    def forget_vanished(self, mode, inst):
        ks = self.keys_of(inst, mode)
        for k in list(self.known[mode]):
            if k not in ks:
                del self.known[mode][k]

    # -- P oracles ----------------------------------------------------------------------
    def check_paths(self, mode, inst, what):
        ok = True
        bypath = {}
        for name, e in inst.items():
            for kind, path in e["paths"].items():
                bypath.setdefault((kind, path), []).append((e["recipe"], e["vids"][kind], name))
        for (kind, path), us in bypath.items():
            vids = {u[1] for u in us}
            recs = {u[0] for u in us}
            if len(vids) > 1:
                self.viol("injective:%s-dir-shared-by-different-variants" % mode, path=path, users=us, at=what)
                ok = False
            elif mode == "dev" and len(recs) > 1:
                self.viol("injective:dev-dir-shared-by-different-recipes", path=path, users=us, at=what)
                ok = False
            if len(us) > 1 and len(vids) == 1:
                self.nontrivial.add("%s-shared-dir:%s:%s" % (mode, kind, "twins" if len(recs) > 1 else "multipackage"))
        ks = self.keys_of(inst, mode)
        seen = {}
        for name, e in inst.items():
            for kind, path in e["paths"].items():
                k = (e["recipe"], kind, e["vids"][kind]) if mode == "dev" else (kind, e["vids"][kind])
                seen[k] = path
        for k, path in seen.items():
            old = self.known[mode].get(k)
            if old is not None and old[0] != path:
                sig = stable_signature(old[1], ks[k], old[0], path) if mode == "dev" else "stable:release-dir-moved"
                self.viol(sig, key=list(k), before=old[0], after=path, users_before=old[1], users_after=ks[k], at=what, mode=mode)
                ok = False
            elif old is not None:
                self.nontrivial.add("kept:" + mode)
            self.known[mode][k] = (path, ks[k])
        return ok

    def check_trace(self, r, what):
        ok = True
        for f in r.trace:
            if len(f) != 4:
                continue
            kind, cwd, own, seen = f
            foreign = [s for s in seen.split() if s != own]
            if foreign:
                self.viol("reuse:old-variant-files-visible-to-%s-script" % kind, dir=os.path.relpath(cwd, self.ws), own=own, seen=seen, at=what)
                ok = False
        return ok

    def expected_of(self, name, e):
        """expected marker set of the directories of instance `name`"""
        top = name.split("/")[0]
        i = int(top[1:])
        p, v = self.proj[i]
        sv = self.srcv[WORLDS[self.world][p]]
        ex = expected_markers(self.world, p, v, sv)
        if "/" in name:
            return {"build": [ex["lib.build"]], "dist": [ex["lib.dist"]]}
        return {"build": [ex["mid.build"]], "dist": [ex["mid.dist"]]}

    def check_content(self, inst, what):
        """after a successful build every workspace holds exactly what a clean build of its variant holds"""
        ok = True
        dirs = workspace_dirs(self.ws)
        for name, e in inst.items():
            exp = self.expected_of(name, e)
            for kind in ("build", "dist"):
                p = e["paths"].get(kind)
                if p is None:
                    self.viol("build:directory-missing-after-build", instance=name, kind=kind, at=what)
                    ok = False
                elif dirs.get(p) != exp[kind]:
                    self.viol("reuse:workspace-differs-from-clean-build", instance=name, kind=kind, path=p, markers=dirs.get(p), expected=exp[kind], at=what)
                    ok = False
        return ok

    # -- actions ------------------------------------------------------------------------
    def apply_project(self, proj, srcv):
        self.proj, self.srcv = [tuple(x) for x in proj], dict(srcv)
        files, self.roots = render(self.world, self.proj, self.srcv)
        bobrun.write_files(self.ws, files)
        self.built_ok = {"dev": False, "rel": False}
        self._show = None

    def prime(self, model_db):
        """a dev-mode command that only refreshes the directory mapping (`bob query-path`)"""
        self.model_db = model_db
        if self.roots:
            self.forget_vanished("dev", self.observe("dev"))

    def compare_numbering(self, mode, inst, model):
        """M: directory numbers of the library checkout/build steps as the mechanism model assigns them"""
        if model is None:
            return
        if mode == "dev":
            want = {(e[0][0], e[0][1], e[0][2]): "dev/%s/%s/%d/workspace" % (e[1][1], e[1][2], e[1][3]) for e in model}
        else:
            want = {(e[0][0], e[0][1]): "work/%s/%s/%d/workspace" % (e[1][2], e[1][1], e[1][3]) for e in model}
        for name, e in inst.items():
            if "/" not in name:
                continue
            p, v = self.proj[int(name.split("/")[0][1:])]
            rec = WORLDS[self.world][p]
            for kind, num in (("src", self.srcv[rec]), ("build", (self.srcv[rec] - 1) * self.nv + v)):
                w = want.get((kind, rec, num) if mode == "dev" else (kind, num))
                if w != e["paths"].get(kind):
                    self.drift.append("numbering (%s): model assigns %s to %s/%s#%d, code %s" % (mode, w, rec, kind, num, e["paths"].get(kind)))
                    return

    def build(self, mode, quiet=False, model=None):
        if not self.roots:
            return True
        cmd = (["dev"] if mode == "dev" else ["build"]) + self.roots
        r = self.bob(cmd)
        what = "%s%s" % ("dev" if mode == "dev" else "build", " (after clean)" if quiet else "")
        if r.rc != 0:
            self.viol("invocation-failed:" + ("dev" if mode == "dev" else "build"), rc=r.rc, out=r.out[-3000:])
            return False
        ok = self.check_trace(r, what)
        if quiet:
            ran = [x for x in r.runs() if x[1] in ("build", "package")]
            if ran:
                self.viol("clean:rebuild-after-clean-executes-steps", ran=ran, at=what)
                ok = False
            self.nontrivial.add("quiet-rebuild-after-clean")
        inst = self.observe(mode)
        self.forget_vanished(mode, inst)
        ok = self.check_paths(mode, inst, what) and ok
        ok = self.check_content(inst, what) and ok
        if ok and not quiet:
            self.compare_numbering(mode, inst, model if mode == "rel" else self.model_db)
        self.built_ok[mode] = True
        return ok

    def clean(self, mode, src, dry, model_del):
        what = "clean%s%s%s" % (" --release" if mode == "rel" else "", " -s" if src else "", " --dry-run" if dry else "")
        inst = self.observe(mode)          # dev: primes, as clean itself does first
        self.forget_vanished(mode, inst)
        before = workspace_dirs(self.ws)
        tree_before = project_tree(self.ws)
        r = self.bob(["clean"] + (["--release"] if mode == "rel" else ["--develop"]) + (["-s"] if src else []) + (["--dry-run"] if dry else []), record=False)
        if r.rc != 0:
            self.viol("invocation-failed:clean", rc=r.rc, out=r.out[-3000:], at=what)
            return False
        after = workspace_dirs(self.ws)
        tree_after = project_tree(self.ws)
        deleted = sorted(set(before) - set(after))
        ok = True
        if dry:
            if tree_after != tree_before:
                diff = sorted(k for k in set(tree_before) | set(tree_after) if tree_before.get(k) != tree_after.get(k))
                self.viol("clean:dry-run-modifies-workspace", changed=diff[:20], at=what)
                ok = False
            listed = sorted(l.split(" ", 1)[1].strip() for l in r.out.splitlines() if l.startswith("rm "))
            if listed:
                self.nontrivial.add("dry-run-lists-garbage")
            return ok
        # nothing but whole workspace directories of the cleaned mode disappears
        prefix = "dev/" if mode == "dev" else "work/"
        gone = sorted(k for k in tree_before if k not in tree_after)
        stray = [k for k in gone if not any(k == d or k.startswith(d + "/") for d in deleted)]
        changed = [k for k in tree_after if k in tree_before and tree_before[k] != tree_after[k]]
        if stray or changed or set(tree_after) - set(tree_before):
            self.viol("clean:modifies-files-outside-deleted-workspaces", stray=stray[:10], changed=changed[:10], at=what)
            ok = False
        for d in deleted:
            kind = d.split("/")[1] if mode == "dev" else d.split("/")[-3]
            if not d.startswith(prefix):
                self.viol("clean:deletes-directory-of-other-mode", dir=d, at=what)
                ok = False
                continue
            if kind == "src" and not src:
                self.viol("clean:deletes-source-directory-without-s", dir=d, at=what)
                ok = False
                continue
            # does it hold the up-to-date result of a step of the current project?
            for name, e in inst.items():
                for k2, p in e["paths"].items():
                    if p != d:
                        continue
                    if k2 == "src":
                        self.viol("clean:deletes-source-directory-of-current-package", dir=d, instance=name, at=what)
                        ok = False
                    elif before[d] == self.expected_of(name, e)[k2]:
                        self.viol("clean:deletes-up-to-date-%s-result" % k2, dir=d, instance=name, markers=before[d], at=what)
                        ok = False
                    else:
                        self.nontrivial.add("clean-deletes-stale-dir-of-current-step")
            self.nontrivial.add("clean-deletes:%s:%s" % (mode, kind))
        # M: compare with the model's deletion set (library checkout/build directories only)
        if model_del is not None:
            want = sorted(("dev/%s/%s/%d/workspace" % (x[1], x[2], x[3])) if x[0] == "dev" else ("work/%s/%s/%d/workspace" % (x[2], x[1], x[3]))
                          for x in model_del)
            libs = set(WORLDS[self.world]) | set(WORLDS[self.world].values())
            got = sorted(d for d in deleted if (d.split("/")[2] if mode == "dev" else d.split("/")[1]) in libs
                         and (d.split("/")[1] if mode == "dev" else d.split("/")[2]) in ("src", "build"))
            if want != got:
                self.drift.append("clean %s: model deletes %s, code %s" % (what, want, got))
        # the results that were up to date before are still up to date: an immediate rebuild runs nothing
        for m in ("dev", "rel"):
            if ok and self.built_ok[m]:
                ok = self.build(m, quiet=True) and ok
        return ok

    def run(self):
        hist = self.hist
        i = 0
        # the model starts with an empty project (recipes exist, nothing is reachable from a root)
        self.apply_project([], {r: 1 for r in set(WORLDS[self.world].values())})
        try:
            while i < len(hist) and not self.violations:
                a = hist[i]
                i += 1
                act = a["a"]
                if act == "ProjectChange":
                    # consecutive edits without a command in between collapse to the last one
                    while i < len(hist) and hist[i]["a"] == "ProjectChange":
                        a = hist[i]
                        i += 1
                    self.apply_project(a["proj"], a["srcv"])
                    self.model_db = None
                elif act == "Prime":
                    self.prime(a["db"])
                elif act == "BuildDev":
                    self.build("dev")
                elif act == "BuildRel":
                    self.build("rel", model=a["byName"])
                elif act == "Clean":
                    self.clean(a["mode"], a["src"], a["dry"], a["del"])
        except Abort:
            pass
        return self


def e2e_task(arg):
    i, world, nv, hist, seed = arg
    work = common.scratch("c16-e2e-")
    try:
        r = E2E(world, nv, hist, work, seed * 7919 + i).run()
        return {"i": i, "violations": r.violations, "drift": r.drift, "nontrivial": sorted(r.nontrivial),
                "invocations": r.invocations, "log": r.steps_log}
    finally:
        shutil.rmtree(work, ignore_errors=True)


# --------------------------------------------------------------------------------------------

def shape(hist):
    s = []
    for a in hist:
        if a["a"] == "Clean":
            s.append("C%s%s%s" % (a["mode"][0], "s" if a["src"] else "", "d" if a["dry"] else ""))
        else:
            s.append({"ProjectChange": "E", "Prime": "P", "BuildDev": "D", "BuildRel": "R"}[a["a"]])
    return "".join(s)


def normalise(hist):
    """drop actions that cannot matter for the end-to-end replay (keeps the replay short); a Prime directly before a
    develop build is kept only as the model's numbering (the build primes itself)"""
    out = []
    for j, a in enumerate(hist):
        if out and a["a"] == "Clean" and out[-1]["a"] == "Clean" and a["dry"] and out[-1]["dry"]:
            continue
        out.append(a)
    while out and out[-1]["a"] in ("ProjectChange", "Prime"):
        out.pop()
    return out


def features(hist, world="multi"):
    """shapes of a history that the end-to-end oracles need to see (computed from the actions and the model's
    observations only); used to make the capped selection cover every shape"""
    W = WORLDS[world]
    f = set()
    proj = []
    changed = {"dev": True, "rel": True}       # project changed since the last build of the mode
    built_src = {"dev": set(), "rel": set()}   # recipes / checkout variants with a checkout workspace
    built_dir = {}                              # develop directory -> key it was built for
    db = []
    srcv = {}
    for a in hist:
        k = a["a"]
        if k == "ProjectChange":
            proj, srcv = a["proj"], a["srcv"]
            changed = {"dev": True, "rel": True}
        elif k == "Prime":
            db = a["db"]
        elif k in ("BuildDev", "BuildRel"):
            m = "dev" if k == "BuildDev" else "rel"
            if proj:
                f.add("build-after-change:" + m if changed[m] else "rebuild:" + m)
                changed[m] = False
                for p, v in proj:
                    built_src[m].add((W[p], srcv[W[p]]) if m == "rel" else W[p])
                if m == "dev":
                    for key, d in db:
                        d = tuple(d)
                        if d in built_dir and built_dir[d] != key:
                            f.add("reuse-of-built-dir:" + d[1])
                        built_dir[d] = key
        elif k == "Clean":
            m = a["mode"]
            cur = {(W[p], srcv[W[p]]) if m == "rel" else W[p] for p, v in proj}
            garbage_src = built_src[m] - cur
            kinds = {d[1] for d in a["del"]}
            if a["dry"]:
                if a["del"] or garbage_src:
                    f.add("dry-run-with-garbage:" + m)
            else:
                if "build" in kinds:
                    f.add("clean-deletes-build:" + m)
                    for d in a["del"]:
                        built_dir.pop(tuple(d), None)
                if garbage_src and not a["src"]:
                    f.add("clean-without-s-garbage-src:" + m)
                if garbage_src and a["src"]:
                    f.add("clean-s-deletes-src:" + m)
                    built_src[m] &= cur
                if not changed["dev"] or not changed["rel"]:
                    f.add("clean-then-quiet-rebuild")
                # identical packages from different recipes, built and up to date, while clean runs
                el = {(p, v) for p, v in proj}
                if not changed[m] and any(W[p] != W[q] and v == w and srcv[W[p]] == srcv[W[q]] and PCLASS.get(p) == PCLASS.get(q)
                                          for p, v in el for q, w in el):
                    f.add("clean-with-twins-built:" + m)
    return f


def interest(hist):
    """prefer histories that build, change, and clean in an order that can matter"""
    score, built, changed = 0, False, True
    for a in hist:
        if a["a"] in ("BuildDev", "BuildRel"):
            score += 3 if changed else 0
            built, changed = True, False
        elif a["a"] == "ProjectChange":
            changed = True
        elif a["a"] == "Clean" and built:
            score += 1 if a["dry"] else 2
    return score + 2 * len(features(hist))


def select(cand, cap, rng, per_feature):
    """capped selection: every feature `per_feature` times (if available), then the most interesting, then random"""
    cand = list(cand)
    rng.shuffle(cand)
    cand.sort(key=lambda h: -interest(h))
    feats = [features(h) for h in cand]
    need = {}
    for fs in feats:
        for x in fs:
            need[x] = per_feature
    chosen = []
    for j, fs in enumerate(feats):
        if len(chosen) >= cap:
            break
        if any(need.get(x, 0) > 0 for x in fs):
            chosen.append(j)
            for x in fs:
                need[x] = need.get(x, 0) - 1
    cs = set(chosen)
    rest = [j for j in range(len(cand)) if j not in cs]
    half = max(0, (cap - len(chosen)) // 2)
    chosen += rest[:half]
    rest = rest[half:]
    chosen += rng.sample(rest, min(len(rest), max(0, cap - len(chosen))))
    return [cand[j] for j in chosen]


def main():
    a = common.args(PROP)
    rep = evidence.Report(PROP, a.tier, a.seed)
    quick = a.tier == "quick"
    rep.rule = ("behaviours = TLC -simulate runs of DevDirs (project changes, primes, dev/release builds, cleans); "
                "level B-i: behaviours replayed into the real DevelopDirOracle; level B-ii: a seeded, shape-covering selection "
                "replayed with real bob invocations; non-trivial = distinct shapes exercised on the real code (kept+new numbering, "
                "reuse of a freed directory, shared keys, twins, deletions by kind/mode, quiet rebuild after clean); evaluations = "
                "real oracle refreshes + real bob invocations")
    rep.assumptions = ["a checkout step and a build/package step never have the same variant id (keys are tagged with the kind in the model)",
                       "no sandbox, no shared packages, no external developNamePersister plugin; full builds of all roots (no --no-deps / -b / -B)",
                       "clean is called with the same configuration (-c/-D) as the builds, as the manual demands",
                       "import SCM sources are unmodified when clean -s runs (SCM status clean)",
                       "Variant-Ids are taken from `bob show` (C02/C03 decide whether they are the right ones)"]
    # private temp dir: TLC meta dirs and scratch are not touched by anybody else
    tmp = common.scratch("c16-tmp-")
    os.environ["TMPDIR"] = tmp
    os.environ["VERIF_TMP"] = tmp
    import tempfile
    tempfile.tempdir = tmp
    tw = min(WORKERS, 16)
    # development aid only: VF_C16_STAGES=Bi,Bii skips the (repo independent) exhaustive stage
    stages = set((os.environ.get("VF_C16_STAGES") or "A,Bi,Bii").split(","))

    common.use_repo()
    import bob.cmds.build.state  # noqa: F401 (before fork)
    import bob.builder  # noqa: F401
    keep = probe_keep_rule()
    rep.extra["keep_rule_of_code"] = keep

    def cfgp(name):
        """the mechanism model follows the code: configs are written for KeepRule = "prefix" (the code as of this
        writing); for a tree with the fix the same configs are run with KeepRule = "always"."""
        if keep == "prefix":
            return name
        with open(os.path.join(tlc.SPECS, name)) as f:
            text = f.read().replace('KeepRule = "prefix"', 'KeepRule = "always"')
        path = os.path.join(tmp, name)
        with open(path, "w") as f:
            f.write(text)
        return path

    # ---------------- (A) exhaustive
    exh = ["DevDirs.cfg", "DevDirs_num.cfg", "DevDirs_nested.cfg"] if quick else \
          ["DevDirs_thorough.cfg", "DevDirs_num_thorough.cfg", "DevDirs_nested.cfg", "DevDirs_src.cfg", "DevDirs_stable_fixed.cfg"]
    cov_actions = ["ProjectChange", "Prime", "BuildDev", "BuildRel", "CleanDev", "CleanRel"]
    for cfg in (exh if "A" in stages else []):
        res = tlc.run("DevDirs", cfgp(cfg), workers=tw, coverage=True, timeout=30000)
        rep.add_tlc(res, cfg)
        if res.violated:
            rep.violation("model:" + res.violated, {"config": cfg, "cex": res.cex})
        tlc.require_coverage(res, cov_actions, cfg)
    small = [("DevDirs_reach_%s.cfg" % n, n) for n in
             ("ReachNumberedAround", "ReachReuse", "ReachSharedKey", "ReachTwins", "ReachCleanDeletesBuild",
              "ReachCleanDeletesSrc", "ReachCleanStaleOfCurrent", "ReachDrySkips")]
    small += [("DevDirs_stable.cfg", None)]
    if not quick:
        small += [("DevDirs_weak_%s.cfg" % w, p) for w, p in
                  (("NumberBlind", "Injective"), ("RecipeKey", "Injective"), ("NoPrune", "EmptiedBeforeReuse"),
                   ("CleanInverted", "CleanOnlyGarbage"), ("DryDeletes", "DryRunDeletesNothing"), ("SrcUnprotected", "CleanOnlyGarbage"))]
    if "A" not in stages:
        small = [("DevDirs_stable.cfg", None)]
    par = max(1, min(4, tw // 4))
    with ThreadPoolExecutor(par) as ex:
        results = list(ex.map(lambda c: tlc.run("DevDirs", cfgp(c[0]), workers=max(1, tw // par), timeout=10000), small))
    model_stable_violated = None
    for (cfg, want), res in zip(small, results):
        rep.add_tlc(res, cfg)
        if cfg == "DevDirs_stable.cfg":
            # P-level Stable on the mechanism as coded. With KeepRule = "prefix" the model is expected to violate it;
            # the verdict is taken from the real code (B-i / B-ii), the model only says where to look.
            model_stable_violated = res.violated == "Stable"
            rep.extra["model_stable"] = {"violated_in_mechanism_model": model_stable_violated, "cex_actions": [x[0] for x in res.cex]}
            if res.violated not in (None, "Stable") or (keep == "always" and res.violated):
                rep.violation("model:" + res.violated, {"config": cfg, "cex": res.cex})
        elif res.violated != want:
            raise tlc.TlcError("vacuity/self-test: %s gave %s, expected %s" % (cfg, res.violated, want))

    # ---------------- generation
    # (every trace prints one history per successor of its last state: many histories share a prefix)
    full_cfgs = ("DevDirs_gen.cfg", "DevDirs_gen_devmode.cfg", "DevDirs_gen_relmode.cfg")
    gens = [("DevDirs_gen_dev.cfg", "multi", 2, 14, 10 if quick else 60), ("DevDirs_gen_num.cfg", "one", 4, 14, 120 if quick else 900),
            ("DevDirs_gen_nested.cfg", "nested", 2, 14, 100 if quick else 700)]
    for c in full_cfgs:
        for k in range(1 if quick else 3):
            gens.append((c, "multi", 3, 16, 40 if quick else 140))
    with ThreadPoolExecutor(max(1, min(6, tw))) as ex:
        gres = list(ex.map(lambda jg: tlc.run("DevDirs", cfgp(jg[1][0]), workers=1, simulate="num=%d" % jg[1][4], depth=jg[1][3],
                                              seed=(a.seed + 1) * 100 + jg[0], timeout=30000), list(enumerate(gens))))
    tasks, seen = [], set()
    full = []
    for (cfg, world, nv, depth, num), g in zip(gens, gres):
        bg = rep.extra.setdefault("behaviours_generated", {})
        bg[cfg] = bg.get(cfg, 0) + len(g.printed)
        for h in g.printed:
            key = json.dumps([world, [[s[0], s[1]] for s in snapshots_of(h)]], sort_keys=True)
            if key not in seen and len(snapshots_of(h)) >= 2:
                seen.add(key)
                tasks.append((len(tasks), world, nv, h, cfg))
        if cfg in full_cfgs:
            full += g.printed
    # ---------------- (B-i)
    rep.extra["oracle_histories_distinct"] = len(tasks)
    cap_i = int(os.environ.get("VF_C16_ORACLE", "0") or 0) or (1600 if quick else 12000)
    if len(tasks) > cap_i:
        # seeded sample, the same share of every generation config
        rs = random.Random(a.seed + 17)
        by_cfg = {}
        for t in tasks:
            by_cfg.setdefault(t[4], []).append(t)
        tasks = []
        for w in sorted(by_cfg):
            l = by_cfg[w]
            tasks += rs.sample(l, min(len(l), cap_i // len(by_cfg)))
        tasks = [(i,) + t[1:] for i, t in enumerate(tasks)]
    sig_seen, bad_hist = {}, {}
    if "Bi" not in stages:
        tasks = []
    with mp.get_context("fork").Pool(WORKERS, initializer=_freeze) as pool:
        for r in pool.imap_unordered(oracle_task, tasks, chunksize=8):
            rep.traces += 1
            rep.evaluations += r["primes"]
            for nt in r["nontrivial"]:
                rep.nontriv("oracle:" + nt)
            for d in r["drift"][:3]:
                rep.model_drift(d)
            for sig in {x[0] for x in r["violations"]}:
                k = "%s @ %s" % (sig, tasks[r["i"]][4])
                bad_hist[k] = bad_hist.get(k, 0) + 1
            for sig, detail in r["violations"]:
                sig_seen[sig] = sig_seen.get(sig, 0) + 1
                if sig_seen[sig] <= 2:
                    rep.violation(sig, detail)
            if r["i"] < 2:
                rep.sample({"level": "B-i", "world": tasks[r["i"]][1], "snapshots": [[s[0], s[1]] for s in snapshots_of(tasks[r["i"]][3])]})
    rep.extra["oracle_histories"] = len(tasks)
    rep.extra["oracle_violation_counts"] = dict(sig_seen)
    rep.extra["oracle_histories_violating"] = dict(bad_hist)
    if "Bi" in stages:
        if model_stable_violated and SIG_SHARED not in sig_seen:
            rep.model_drift("the mechanism model violates Stable (shared key renamed after its first user) but no replayed history did on the real oracle")
        if model_stable_violated is False and SIG_SHARED in sig_seen:
            rep.model_drift("the real oracle moves shared keys but the mechanism model does not")

    # ---------------- (B-ii)
    rng = random.Random(a.seed)
    cand, seenp = [], set()
    for h in full:
        n = normalise(h)
        key = json.dumps(n, sort_keys=True)
        if key in seenp or not any(x["a"] in ("BuildDev", "BuildRel") for x in n):
            continue
        seenp.add(key)
        cand.append(n)
    rep.extra["e2e_candidates"] = len(cand)
    cap = int(os.environ.get("VF_C16_E2E", "0") or 0) or (32 if quick else 400)
    pick = select(cand, cap, rng, 3 if quick else 25)
    fc = {}
    for h in pick:
        for x in features(h):
            fc[x] = fc.get(x, 0) + 1
    rep.extra["e2e_feature_counts"] = fc
    etasks = [(i, "multi", 3, h, a.seed) for i, h in enumerate(pick)] if "Bii" in stages else []
    rep.extra["e2e_histories"] = len(etasks)
    esig = {}
    inv = 0
    with mp.get_context("fork").Pool(WORKERS) as pool:
        for r in pool.imap_unordered(e2e_task, etasks, chunksize=1):
            rep.traces += 1
            rep.evaluations += r["invocations"]
            inv += r["invocations"]
            for nt in r["nontrivial"]:
                rep.nontriv("e2e:" + nt)
            for d in r["drift"][:3]:
                rep.model_drift(d)
            for sig, detail in r["violations"]:
                esig[sig] = esig.get(sig, 0) + 1
                if esig[sig] <= 2:
                    rep.violation(sig, detail)
            if r["i"] < 2:
                rep.sample({"level": "B-ii", "shape": shape(pick[r["i"]]), "commands": r["log"][:40]})
    rep.extra["e2e_invocations"] = inv
    rep.extra["e2e_violation_counts"] = dict(esig)
    rep.extra["nontrivial_keys"] = sorted(rep.nontrivial)
    if rep.drift:
        rep.level = "exploration"
    return rep.finish()


if __name__ == "__main__":
    evidence.main_wrapper(main)
