"""C09  Archive uploads are atomic and never overwrite.

(A) TLC checks specs/ArchivePublish.tla exhaustively (2 uploaders with different payloads on
    package / metadata names of two archives, a cache-mirroring downloader, a reader, an I/O error
    or a kill at any file-system operation) + vacuity configs (reachability of the lost race, the
    mirror commit, ...; the two weakened mechanisms "mirror commits without the whole source" and
    "packages published with replace()" must be rejected by the P layer).
(B) TLC -simulate generates behaviours (sequences of [process, operation] steps incl. Fault/Crash
    with their pc).  Each is replayed into REAL bob.archive.LocalArchive objects: every logical
    process is a thread under vf.sched + vf.fsint (installed on bob.archive) that is let through
    exactly the file-system operation the model step names.  After EVERY real file-system
    operation the driver (as the reader, not interposed) lists both archive directories and checks
    each file under an artifact name (.../xx/yy/<id>-1.tgz): byte-identical to a complete payload
    produced by a solo upload, full gzip read to EOF incl. trailer, full tar read, never changing
    once present; after a failed upload nothing of it is under the name.
    In addition, exhaustively: every op index of solo uploads / mirroring downloads as kill point
    and as I/O-error point (EIO, ENOSPC).
(C) thorough tier: real OS processes racing on one build-id (uploaders with differing payloads,
    some killed / faulted at a seed-chosen operation, mirroring downloaders) with a reader process
    polling both archives; same reader invariants.
(C') both tiers, code -> spec trace validation: rounds of real OS processes (uploaders of packages and
    metadata, cache-mirroring downloaders, readers, some killed / faulted at a seed-chosen operation)
    race on one build-id; every process records the call and the return of each of its archive
    file-system operations (checks/c09_trace.py: per-process sequence number + global ticket from a
    flock'ed counter file, never wall-clock time).  specs/TraceArchivePublish.tla re-uses the actions
    of ArchivePublish, lets each operation take effect between its call and its return event, binds
    the logged fields (process, artifact name, won/lost, present/absent, inode seen, sizes) and TLC
    evaluates every P invariant on every state of the matched behaviours.  An invariant violated on
    a real trace, or the independent oracles (polling reader, content of what the readers / mirrors
    extracted, owner of the final inodes) failing => violation; a trace the mechanism model rejects
    without that => model_drift.  Self-test in every run: copies of an accepted trace with a flipped
    publish result / a dropped event / a flipped exists result must be rejected.

Verdict (P layer, oracle independent of the mechanism model): see SIGNATURES.  Disagreement between
the real operation sequence and the model (M) that leaves P intact is model_drift.
"""
import errno
import gc
import gzip
import hashlib
import io
import json
import multiprocessing as mp
import os
import random
import shutil
import sys
import tarfile
import time
import types
from concurrent.futures import ThreadPoolExecutor

from vf import common, tlc, evidence, fsint, sched

PROP = "C09"

SIGNATURES = {
    "mirror-truncated-artifact": "the cache mirror published a strict prefix of the (complete) source artifact",
    "mirror-abort-published": "an aborted cache mirror left a file under the artifact name",
    "partial-artifact-visible": "a file under the artifact name is not a complete valid artifact",
    "artifact-overwritten": "a package artifact that was present changed (content or inode)",
    "artifact-removed": "a package artifact that was present disappeared",
    "failed-upload-left-artifact": "an upload that reported failure left something under the artifact name",
    "partial-metadata-visible": "a metadata file under its name is not one of the complete contents",
    "reader-got-invalid-artifact": "a Bob download of a present artifact failed or produced wrong content",
    # P invariants of ArchivePublish evaluated by TLC on the states of a validated trace of real racing processes
    "trace-invariant:Atomic": "real trace: an inode that did not receive all bytes of its payload is linked under an artifact name",
    "trace-invariant:NoTempUnderName": "real trace: a file that is still open for writing is linked under an artifact name",
    "trace-invariant:NeverOverwrite": "real trace: the inode under a package name was replaced by a later publish operation",
    "trace-invariant:FailedLeavesNothing": "real trace: a writer that failed / was killed before publishing owns the inode under a name",
    "trace-invariant:ReaderOK": "real trace: a reader opened an inode that was not complete and closed",
    "trace-invariant:NoTempLeft": "real trace: a writer that ended regularly (done / skipped / lost race) left its temporary name behind",
    "trace-invariant:MirrorFaithful": "real trace: the cache mirror published something that is not a copy of an uploaded payload",
}

PKG, META = ".tgz", ".buildid"
CLASSES = ["tiny", "edge512", "mid", "edge10752", "big"]


# ----------------------------------------------------------------------------------------------
# payloads and the independent validity oracle

def stamp(d):
    for root, dirs, fs in os.walk(d):
        for x in dirs + fs:
            os.utime(os.path.join(root, x), (1500000000, 1500000000))
    os.utime(d, (1500000000, 1500000000))


def make_payload(d, cls, rng, tag):
    """A workspace (audit trail + content tree).  The classes are chosen relative to the buffer sizes of
    stream readers of the packed artifact (first read 512 bytes, then 10240 at a time); the edge classes
    are calibrated by World.calibrate to a packed size of boundary + a small offset."""
    os.makedirs(os.path.join(d, "content", "sub"))
    n = {"tiny": rng.randrange(0, 60), "edge512": rng.randrange(100, 140), "mid": rng.randrange(600, 6000),
         "edge10752": rng.randrange(10245, 10300), "big": rng.randrange(20000, 60000)}[cls]
    files = {"content/data": rng.randbytes(n)}
    if cls in ("mid", "big"):
        files["content/sub/text"] = (b"%s line\n" % tag.encode()) * rng.randrange(1, 400)
    for rel, data in files.items():
        with open(os.path.join(d, rel), "wb") as f:
            f.write(data)
    audit = os.path.join(d, "audit.json.gz")
    with open(audit, "wb") as f:
        f.write(gzip.compress(json.dumps({"artifact": tag, "cls": cls}).encode(), mtime=0))
    stamp(d)
    return {"audit": audit, "content": os.path.join(d, "content"), "files": files, "cls": cls, "tag": tag, "dir": d}


EDGE = {"edge512": 512, "edge10752": 512 + 10240}
EDGE_OFFSETS = [-2, -1, 0, 1, 2, 4, 7, 11, 16, 22]


def mask(b):
    """The artifact without its gzip header: MTIME is the wall clock of the upload and FNAME the random name of
    the temporary file (gzip.open(fileobj) records fileobj.name); neither is part of the payload. What follows
    (deflate stream + CRC32/ISIZE trailer) is a function of the packed tree."""
    try:
        if len(b) < 10 or b[:2] != b"\x1f\x8b":
            return b"?" + b
        flg, off = b[3], 10
        if flg & 4:
            off += 2 + int.from_bytes(b[off:off + 2], "little")
        for bit in (8, 16):
            if flg & bit:
                off = b.index(b"\0", off) + 1
        if flg & 2:
            off += 2
        if off > len(b):
            return b"?" + b
        return b[off:]
    except ValueError:
        return b"?" + b


def full_check(data):
    """gzip -t + tar t equivalent: None if data is a complete valid artifact."""
    try:
        raw = gzip.decompress(data)          # reads to EOF, verifies CRC32 + ISIZE trailer
    except BaseException as e:
        return "gzip:%s" % type(e).__name__
    try:
        with tarfile.open(fileobj=io.BytesIO(raw), mode="r:") as t:
            names = []
            for m in t:
                names.append(m.name)
                if m.isfile():
                    t.extractfile(m).read()
        if "meta/audit.json.gz" not in names:
            return "tar:no-audit"
    except BaseException as e:
        return "tar:%s" % type(e).__name__
    return None


def read_tree(d):
    out = {}
    for root, dirs, fs in os.walk(d):
        for x in fs:
            p = os.path.join(root, x)
            with open(p, "rb") as f:
                out[os.path.relpath(p, d)] = f.read()
    return out


# ----------------------------------------------------------------------------------------------

class Violation(Exception):
    pass


MAINPID = os.getpid()
WORKERS = max(1, int(os.environ.get("VF_WORKERS", "16") or 16))     # cap for process pools and TLC workers


def fast_scratch(prefix):
    """scratch directory for one replay: thousands of small trees are created and removed, which is two orders
    of magnitude faster on tmpfs than on the (discard-mounted) disk; VERIF_TMP overrides. Removed by the task
    itself, leftovers of killed workers by sweep_scratch()."""
    base = os.environ.get("VERIF_TMP")
    if not base:
        base = "/dev/shm" if os.path.isdir("/dev/shm") and os.access("/dev/shm", os.W_OK | os.X_OK) else None
    import tempfile
    return tempfile.mkdtemp(prefix="%s%d-" % (prefix, MAINPID), dir=base)


def sweep_scratch():
    import glob
    import tempfile
    for base in {os.environ.get("VERIF_TMP") or "/dev/shm", tempfile.gettempdir()}:
        for d in glob.glob(os.path.join(base, "vf-c09*-%d-*" % MAINPID)):
            shutil.rmtree(d, ignore_errors=True)


class World:
    """Scratch directory of one behaviour: archives A (source) and B (cache mirror), payloads, references."""

    def __init__(self, work, seed, idx, uploaders, filemode=0o640, classes=None, nofail=None):
        from bob import archive as A
        self.A = A
        self.work = work
        self.rng = random.Random((seed * 1000003 + idx) * 7919 + 11)
        self.bid = self.rng.randbytes(20)
        self.hex = self.bid.hex()
        self.roots = {"A": os.path.join(work, "A"), "B": os.path.join(work, "B")}
        self.filemode = filemode
        nofail = (idx % 3 == 1) if nofail is None else nofail
        self.flags = {"A": ["download", "upload"] + (["nofail"] if idx % 4 == 3 else []),
                      "B": ["download", "upload", "cache"] + (["nofail"] if nofail else [])}
        self.payload, self.meta, self.ref, self.wtot, self.wmir = {}, {}, {}, {}, {}
        for j, u in enumerate(uploaders):
            cls = classes[j] if classes else CLASSES[(idx // (5 ** j) + j) % 5]
            off = None
            if isinstance(cls, (tuple, list)):
                cls, off = cls
            self.payload[u] = make_payload(os.path.join(work, "pay", u), cls, self.rng, u)
            if cls in EDGE:
                self.calibrate(self.payload[u], EDGE[cls] + (self.rng.choice(EDGE_OFFSETS) if off is None else off))
            self.meta[u] = hashlib.sha1(("%s/%d/%d" % (u, seed, idx)).encode()).digest()

    def calibrate(self, p, target):
        """adjust the (incompressible) data file until the packed artifact has exactly `target` bytes"""
        cal = os.path.join(self.work, "cal")
        fn = os.path.join(cal, self.hex[0:2], self.hex[2:4], self.hex[4:] + "-1" + PKG)
        for it in range(24):
            self.archive("A", cal, ["download", "upload"])._uploadPackage(self.bid, PKG, p["audit"], p["content"])
            size = os.path.getsize(fn)
            shutil.rmtree(cal)
            if size == target or it == 23:      # (the last measurement always describes the final tree)
                break
            delta = target - size
            data = p["files"]["content/data"]
            n = max(0, len(data) + (delta if abs(delta) > 2 else (1 if delta > 0 else -1)))
            data = data[:n] + self.rng.randbytes(max(0, n - len(data)))
            p["files"]["content/data"] = data
            with open(os.path.join(p["dir"], "content/data"), "wb") as f:
                f.write(data)
            stamp(p["dir"])
        p["packed"] = size

    def name(self, arch, kind):
        return os.path.join(self.roots[arch], self.hex[0:2], self.hex[2:4], self.hex[4:] + "-1" + (PKG if kind == "pkg" else META))

    def spec(self, arch, root=None, flags=None):
        s = {"backend": "file", "path": root or self.roots[arch], "flags": list(flags or self.flags[arch])}
        if self.filemode is not None:
            s["fileMode"] = self.filemode
        return s

    def archive(self, arch, root=None, flags=None):
        return self.A.getSingleArchiver(None, self.spec(arch, root, flags))

    def caches_for(self, src):
        """as MultiArchive.downloadPackage (archive.py 1244) wires the cache mirrors"""
        archives = [src, self.archive("B")]
        return [a for a in archives if (a is not src) and a.canCache()]

    def references(self, ip):
        """solo uploads / solo mirroring downloads of every payload (driver thread, not scheduled):
        the complete artifacts and the number of write operations each takes"""
        for u, p in self.payload.items():
            root = os.path.join(self.work, "ref", u)
            a = self.archive("A", root, ["download", "upload"])
            lo = len(ip.ops)
            r = a._uploadPackage(self.bid, PKG, p["audit"], p["content"])
            fn = os.path.join(root, self.hex[0:2], self.hex[2:4], self.hex[4:] + "-1" + PKG)
            with open(fn, "rb") as f:
                data = f.read()
            bad = full_check(data)
            if bad:
                raise RuntimeError("reference upload of %s is not a valid artifact: %s %r" % (u, bad, r))
            self.ref[u] = data
            self.wtot[u] = sum(1 for o in ip.ops[lo:] if o.name == "write" and str(o.args[0]).startswith(root))
            croot = os.path.join(self.work, "ref", u + "_cache")
            c = self.archive("B", croot, ["download", "upload", "cache"])
            ws = os.path.join(self.work, "ref", u + "_ws")
            lo = len(ip.ops)
            a._downloadPackage(self.bid, PKG, os.path.join(ws, "audit.json.gz"), os.path.join(ws, "content"), [c], ws)
            self.wmir[u] = sum(1 for o in ip.ops[lo:] if o.name == "write" and str(o.args[0]).startswith(croot))
        del ip.ops[:]

    def owner_of(self, data):
        m = mask(data)
        for u, r in self.ref.items():
            if mask(r) == m:
                return u
        return None

    def prefix_of(self, data):
        for u, r in self.ref.items():
            m = mask(data)
            if len(m) < len(mask(r)) and not m.startswith(b"?") and mask(r)[:len(m)] == m:
                return u
        return None


WANT = {   # model op -> (real op kinds that realise it, kinds silently passed on the way)
    "Exists": ({"exists"}, {"ws"}),
    "MkTemp": ({"mktemp"}, {"ws", "mkdir"}),
    "Close": ({"close"}, {"ws", "write", "sync"}),
    "EClose": ({"close"}, {"ws", "write", "sync"}),
    "Chmod": ({"chmod"}, {"ws"}),
    "Link": ({"link", "replace"}, {"ws", "sync"}),
    "Replace": ({"link", "replace"}, {"ws", "sync"}),
    "Unlink": ({"unlink"}, {"ws"}),
    "EUnlink": ({"unlink"}, {"ws"}),
    "MOpen": ({"open_src"}, {"ws"}),
    "ROpen": ({"open_src"}, {"ws"}),
}
PC2OP = {"exists": "Exists", "mktemp": "MkTemp", "close": "Close", "chmod": "Chmod", "link": "Link",
         "replace": "Replace", "unlink": "Unlink", "eclose": "EClose", "eunlink": "EUnlink"}
READ_OPS = ("path.", "open.r", "stat", "lstat", "listdir", "scandir", "readlink")


class Run:
    """Drives real archive operations of several logical processes, one file-system operation at a time."""

    def __init__(self, world, n_chunks=2):
        from bob import archive as A
        from bob.errors import BobError
        from bob import tty
        self.A, self.BobError, self.tty = A, BobError, tty
        self.w = world
        self.N = n_chunks
        self.ip = fsint.Interposer(record_reads=True)
        self.sch = sched.Sched(self.ip)
        self.ip.hook = self._hook
        nosig = types.SimpleNamespace(signal=lambda *a: None, SIGINT=2, SIG_DFL=0, default_int_handler=None)
        # signal.signal() is only legal in the main thread; the names imported from tempfile are rebound too
        self.ip.install(A, extra={"NamedTemporaryFile": self.ip.tempfile.NamedTemporaryFile,
                                  "mkstemp": self.ip.tempfile.mkstemp,
                                  "TemporaryFile": self.ip.tempfile.TemporaryFile, "signal": nosig})
        self.info = {}
        self.stepno = 0
        self.trace = []            # (step, actor, op, args)
        self.seen = {}             # artifact path -> dict(ino, sha, owner, by, step)
        self.cache = {}            # (ino, size, mtime_ns) -> (sha, owner, bad)
        self.violations = []
        self.drift = []
        self.notes = set()
        self.nontrivial = set()
        self.checks = 0
        self.names = {(a, k): self.w.name(a, k) for a in ("A", "B") for k in ("pkg", "meta")}
        self.byname = {v: k for k, v in self.names.items()}

    def close(self):
        self.ip.uninstall()

    # -- bookkeeping inside actor threads ---------------------------------------------------
    def _hook(self, phase, op):
        self.sch._hook(phase, op)
        if phase == "after" and op.actor in self.info and op.exc is None:
            i = self.info[op.actor]
            if hasattr(op.res, "closed") and hasattr(op.res, "fileno"):
                i["files"].append(op.res)
            if op.name == "NamedTemporaryFile":
                i["tmp"].append(op.res.name)

    def viol(self, sig, **detail):
        detail["trace_tail"] = self.trace[-40:]
        self.violations.append((sig, detail))
        raise Violation(sig)

    # -- classification of a pending real operation ----------------------------------------
    def kind(self, op):
        if op is None:
            return None
        ps = [x for x in op.args if isinstance(x, str)]
        inarch = any(p.startswith(self.w.roots["A"] + os.sep) or p.startswith(self.w.roots["B"] + os.sep)
                     or p in (self.w.roots["A"], self.w.roots["B"]) for p in ps)
        if not inarch:
            return "ws"
        n = op.name
        if n == "path.isfile":
            return "exists"
        if n in ("path.isdir", "path.exists", "makedirs", "mkdir", "path.lexists"):
            return "mkdir"
        if n in ("NamedTemporaryFile", "mkstemp", "TemporaryFile", "open.w", "open.x", "open.a", "open.w+", "os.open"):
            return "mktemp"
        if n in ("write", "truncate"):
            return "write"
        if n == "close":
            return "close"
        if n == "chmod":
            return "chmod"
        if n in ("link", "symlink"):
            return "link"
        if n in ("replace", "rename", "shutil.move"):
            return "replace"
        if n in ("unlink", "remove"):
            return "unlink"
        if n == "open.r":
            return "open_src"
        if n == "fsync":
            return "sync"
        return "ws"

    # -- actors -----------------------------------------------------------------------------
    def spawn(self, name, role, arch, kind, payload=None):
        w = self.w
        i = self.info[name] = {"role": role, "arch": arch, "kind": kind, "files": [], "tmp": [], "fault": None,
                               "crashed": False, "wdone": 0, "widx": 0, "wtot": None, "payload": payload,
                               "finished": False, "failed": None, "detached": False}
        if role == "up" and kind == "pkg":
            a = w.archive(arch)
            p = w.payload[payload]
            i["wtot"] = w.wtot.get(payload)
            fn = lambda: a._uploadPackage(w.bid, PKG, p["audit"], p["content"])
        elif role == "up":
            a = w.archive(arch)
            i["wtot"] = 1
            fn = lambda: a._uploadLocalFile(w.bid, META, w.meta[payload])
        elif role == "mirror":
            a = w.archive(arch)
            ws = os.path.join(w.work, "ws_" + name)
            i["ws"] = ws
            caches = w.caches_for(a)
            fn = lambda: a._downloadPackage(w.bid, PKG, os.path.join(ws, "audit.json.gz"), os.path.join(ws, "content"), caches, ws)
        elif role == "reader" and kind == "pkg":
            a = w.archive(arch)
            ws = os.path.join(w.work, "ws_" + name)
            i["ws"] = ws
            fn = lambda: a._downloadPackage(w.bid, PKG, os.path.join(ws, "audit.json.gz"), os.path.join(ws, "content"), [], ws)
        else:
            a = w.archive(arch)
            fn = lambda: a._downloadLocalFile(w.bid, META)
        i["present_at_open"] = None
        self.sch.spawn(name, fn)
        self.observe(name, None)
        if self.sch.state(name) in ("done", "failed"):
            self.finish(name)

    def live(self, name):
        return name in self.info and self.sch.state(name) == "parked"

    def step(self, name, inject=None):
        """let the actor perform exactly its pending operation (or make it raise `inject`)"""
        i = self.info[name]
        op = self.sch.pending(name)
        k = self.kind(op)
        if inject is not None:
            self.sch.fault(name, inject)
            i["fault"] = self.stepno
            i["fault_kind"] = k
        if k == "open_src" and i["present_at_open"] is None:
            i["present_at_open"] = os.path.isfile(op.args[0])
            if i["role"] == "mirror" and i["present_at_open"]:
                with open(op.args[0], "rb") as f:
                    src = self.w.owner_of(f.read())
                i["payload"] = src
                i["wtot"] = self.w.wmir.get(src)
        st = self.sch.step(name)
        if k == "write" and inject is None:
            i["wdone"] += 1
        if k == "link" and inject is None and self.ip.ops and isinstance(self.ip.ops[-1].exc, FileExistsError):
            self.nontrivial.add("lost-race:%s" % i["role"])
        self.trace.append((self.stepno, name, op.name + ("!" if inject is not None else ""),
                           [os.path.basename(str(x)) for x in op.args]))
        self.stepno += 1
        self.observe(name, op)
        if st in ("done", "failed"):
            self.finish(name)
        elif st == "blocked":
            raise RuntimeError("actor %s blocked on %r" % (name, op))
        return st

    def kill(self, name):
        i = self.info[name]
        a = self.sch.actors[name]
        # workaround (vf.sched keeps descriptors of files that were closed long ago in a.fds and would close
        # numbers that meanwhile belong to somebody else): close exactly the files this actor still holds
        a.fds = set()
        for f in i["files"]:
            try:
                if not f.closed:
                    a.fds.add(f.fileno())
            except Exception:
                pass
        self.sch.kill(name)
        i["crashed"] = True
        i["finished"] = True
        self.trace.append((self.stepno, name, "KILL", []))
        self.stepno += 1
        self.observe(name, None)

    def advance(self, name, want, skip):
        """step through operations of kinds `skip` until one of kinds `want` is pending; False if the actor
        does something else (model drift) or is finished"""
        while self.live(name):
            k = self.kind(self.sch.pending(name))
            if k in want:
                return True
            if k in skip:
                self.step(name)
                continue
            if self.is_probe(self.sch.pending(name)):
                # a read-only look at the archive that the model does not have: pass it, note it
                if not self.info[name].get("probe_noted"):
                    self.info[name]["probe_noted"] = True
                    self.drift.append("%s: unmodelled probe %s before %s" % (name, self.sch.pending(name).name, sorted(want)))
                self.step(name)
                continue
            return False
        return False

    def is_probe(self, op):
        return op is not None and op.name.startswith(READ_OPS) and op.name != "open.r" and self.kind(op) != "ws"

    def eager_probes(self, name, next_want):
        """perform pending read-only probes now instead of right before the next modelled operation (both are
        legal schedules; this one leaves room for other processes between a check and the act that relies on it)"""
        while self.live(name):
            op = self.sch.pending(name)
            if not self.is_probe(op) or self.kind(op) in next_want:
                return
            self.step(name)

    def run_to_end(self, name):
        n = 0
        while self.live(name):
            self.step(name)
            n += 1
            if n > 100000:
                raise RuntimeError("actor does not terminate")

    # -- the reader: what is under the artifact names right now -----------------------------
    def observe(self, actor, op):
        self.checks += 1
        w = self.w
        for (arch, kind), path in self.names.items():
            try:
                st = os.stat(path)
            except FileNotFoundError:
                if path in self.seen and kind == "pkg":
                    self.viol("artifact-removed", name=(arch, kind), by=actor)
                continue
            key = (st.st_ino, st.st_size, st.st_mtime_ns)
            c = self.cache.get(key)
            if c is None:
                with open(path, "rb") as f:
                    data = f.read()
                sha = hashlib.sha1(data).hexdigest()
                if kind == "pkg":
                    owner = w.owner_of(data)
                    bad = None if owner is not None else (full_check(data) or "not-a-payload")
                    pre = w.prefix_of(data) if bad else None
                else:
                    owner = next((u for u, m in w.meta.items() if m == data), None)
                    bad = None if owner is not None else "not-a-content"
                    pre = None
                c = self.cache[key] = (sha, owner, bad, pre, len(data))
            sha, owner, bad, pre, size = c
            prev = self.seen.get(path)
            if prev is None:
                self.seen[path] = {"ino": st.st_ino, "sha": sha, "owner": owner, "by": actor, "step": self.stepno - 1}
            elif (prev["ino"], prev["sha"]) != (st.st_ino, sha):
                if kind == "pkg":
                    self.viol("artifact-overwritten", name=(arch, kind), by=actor, was=prev, now={"ino": st.st_ino, "owner": owner, "bad": bad})
                prev.update(ino=st.st_ino, sha=sha, owner=owner, by=actor, step=self.stepno - 1)
                self.nontrivial.add("metadata-replaced")
            if bad:
                if kind == "meta":
                    self.viol("partial-metadata-visible", name=(arch, kind), by=actor, size=size)
                by = self.seen[path]["by"]
                bi = self.info.get(by, {})
                detail = dict(name=(arch, kind), by=by, why=bad, size=size, prefix_of=pre,
                              full_size=len(w.ref[pre]) if pre else None,
                              payload_class=w.payload[pre]["cls"] if pre else None)
                if bi.get("role") == "mirror":
                    if bi.get("fault") is not None:
                        self.viol("mirror-abort-published", **detail)
                    srcpath = self.names[(bi["arch"], "pkg")]
                    src_ok = False
                    if pre and os.path.isfile(srcpath):
                        with open(srcpath, "rb") as f:
                            src_ok = w.owner_of(f.read()) == pre
                    if pre and src_ok:
                        self.viol("mirror-truncated-artifact", **detail)
                self.viol("partial-artifact-visible", **detail)

    def projection(self):
        out = set()
        for (arch, kind), path in self.names.items():
            s = self.seen.get(path)
            if s is not None and os.path.exists(path):
                out.add((arch, kind, s["owner"] or "?"))
        return out

    # -- an actor returned ------------------------------------------------------------------
    def finish(self, name):
        i = self.info[name]
        if i["finished"]:
            return
        i["finished"] = True
        res, exc = self.sch.result(name)
        if exc is not None and not isinstance(exc, self.BobError):
            self.drift.append("%s ended with %s: %s" % (name, type(exc).__name__, exc))
        failed = exc is not None or (i["role"] == "up" and isinstance(res, tuple) and res[-1] == self.tty.ERROR)
        i["failed"] = failed
        i["result"] = repr(res)[:80] if exc is None else "%s: %s" % (type(exc).__name__, str(exc)[:120])
        if i["role"] == "up":
            if failed:
                since = i["fault"] if i["fault"] is not None else -1
                for path, s in self.seen.items():
                    if s["by"] == name and s["step"] >= since and os.path.exists(path):
                        self.viol("failed-upload-left-artifact", name=self.byname[path], by=name, result=i["result"],
                                  fault_at=i.get("fault_kind"))
                if i["fault"] is not None and any(s["by"] == name and s["step"] < since for s in self.seen.values()):
                    self.notes.add("fault-after-publish:upload reports failure, complete artifact stays")
                if i["fault"] is None:
                    self.drift.append("%s failed without an injected fault: %s" % (name, i["result"]))
            elif isinstance(res, tuple) and res[-1] == self.tty.SKIPPED:
                self.nontrivial.add("skipped-exists" if not i["tmp"] else "skipped-late")
        else:
            found = bool(i["present_at_open"])
            if i["role"] == "reader" and i["kind"] == "meta":
                ok = res is not None and res[0] in self.w.meta.values()
                got = res is not None and res[0] is not None
                if found and i["fault"] is None and not ok:
                    self.viol("reader-got-invalid-artifact", name=(i["arch"], i["kind"]), by=name, result=i["result"])
                if got and not ok:
                    self.viol("reader-got-invalid-artifact", name=(i["arch"], i["kind"]), by=name, result=i["result"])
                return
            ok = exc is None and isinstance(res, tuple) and res[0] is True
            if ok:
                tree = read_tree(i["ws"])
                match = [u for u, p in self.w.payload.items()
                         if all(tree.get(rel) == data for rel, data in p["files"].items())
                         and tree.get("audit.json.gz") == open(p["audit"], "rb").read()
                         and len(tree) == len(p["files"]) + 1]
                if not match:
                    self.viol("reader-got-invalid-artifact", name=(i["arch"], i["kind"]), by=name, result="wrong content", files=sorted(tree))
                self.nontrivial.add("%s-read-ok" % i["role"])
            elif found and i["fault"] is None:
                self.viol("reader-got-invalid-artifact", name=(i["arch"], i["kind"]), by=name, result=i["result"])
        if i["role"] == "mirror":
            # the mirror's own commit / abort: anything it put under the name of the cache archive
            pass

    def leftovers(self):
        """files in the archives that are not artifact names, attributed to their creators"""
        left = []
        for arch, root in self.w.roots.items():
            for d, dirs, fs in os.walk(root):
                for x in fs:
                    p = os.path.join(d, x)
                    if p in self.byname:
                        continue
                    who = [n for n, i in self.info.items() if p in i["tmp"]]
                    left.append((p, who[0] if who else None))
        return left

    def final_checks(self):
        for p, who in self.leftovers():
            i = self.info.get(who)
            if i is None:
                self.drift.append("unattributed file left in the archive: %s" % os.path.basename(p))
            elif i["crashed"]:
                self.nontrivial.add("temp-left-after-crash")
            elif i["fault"] is not None:
                self.notes.add("temp-left-after-fault@%s" % i.get("fault_kind"))
            else:
                self.drift.append("temp file left behind by %s which neither crashed nor was faulted" % who)


# ----------------------------------------------------------------------------------------------
# (B) replay of one TLC behaviour

def replay_behaviour(run, hist, rng):
    w = run.w
    nwrites = {}
    errs = [errno.EIO, errno.ENOSPC]

    def inject_exc():
        e = rng.choice(errs)
        return OSError(e, os.strerror(e))

    def do_write(p, last):
        i = run.info[p]
        i["widx"] += 1
        if last or not i["wtot"]:
            if last:
                # everything up to (not including) the close
                while run.live(p) and run.kind(run.sch.pending(p)) in ("write", "ws"):
                    run.step(p)
            elif run.advance(p, {"write"}, {"ws"}):
                run.step(p)
            return
        target = (i["widx"] * i["wtot"]) // run.N
        while i["wdone"] < target and run.advance(p, {"write"}, {"ws"}):
            run.step(p)

    eager = rng.random() < 0.5
    run.nontrivial.add("probes:%s" % ("eager" if eager else "lazy"))

    def next_want(idx, p):
        for b in hist[idx + 1:]:
            if b["p"] == p:
                if b["op"] in WANT:
                    return WANT[b["op"]][0]
                if b["op"] in ("Fault", "Crash") and b["a"] in PC2OP:
                    return WANT[PC2OP[b["a"]]][0]
                return {"write"}
        return set()

    for idx, a in enumerate(hist):
        p, op = a["p"], a["op"]
        if idx and eager:
            q = hist[idx - 1]["p"]
            if q in run.info and not run.info[q]["detached"]:
                run.eager_probes(q, next_want(idx - 1, q))
        if op == "Start":
            run.spawn(p, "up", a["a"], a["k"], payload=p)
            run.nontrivial.add("start:%s" % a["k"])
        elif op in ("MOpen", "ROpen"):
            if op == "MOpen":
                run.spawn(p, "mirror", "A", "pkg")
            else:
                run.spawn(p, "reader", a["a"], a["k"])
            if run.advance(p, *WANT[op]):
                run.step(p)
            elif run.live(p):
                run.drift.append("%s: %s pending instead of opening the source" % (p, run.sch.pending(p)))
        elif p not in run.info:
            run.drift.append("step %s of unknown process %s" % (op, p))
        elif run.info[p]["detached"]:
            pass
        elif op == "RRead":
            run.run_to_end(p)
        elif op == "Write":
            nwrites[p] = nwrites.get(p, 0) + 1
            do_write(p, nwrites[p] == run.N)
        elif op == "Stop":
            pass
        elif op in WANT:
            if run.advance(p, *WANT[op]):
                k = run.kind(run.sch.pending(p))
                if (op in ("Link", "Replace")) and k != op.lower():
                    run.drift.append("%s: model publishes with %s, code with %s" % (p, op, k))
                run.step(p)
                run.nontrivial.add("%s:%s" % (run.info[p]["role"], op))
            else:
                if run.live(p):
                    run.drift.append("%s: model step %s but the code is about to do %s" % (p, op, run.sch.pending(p)))
                elif not (op in ("Unlink",) and not run.info[p]["failed"]):
                    run.drift.append("%s: model step %s but the real actor already returned (%s)" % (p, op, run.info[p].get("result")))
                run.info[p]["detached"] = True
        elif op in ("Fault", "Crash"):
            at = a["a"]
            if at == "write":
                # bring the writer to the planned chunk; a mirror may then be at a workspace operation of the
                # extractor (its failure aborts the mirror) or at a write of the mirror file
                ok = run.live(p)
                k = run.kind(run.sch.pending(p)) if ok else None
                if ok and k == "ws" and not (op == "Fault" and run.sch.pending(p).name.startswith(READ_OPS)):
                    pass
                else:
                    ok = run.advance(p, {"write"}, {"ws"})
            else:
                ok = run.advance(p, *WANT[PC2OP[at]])
            if not ok:
                if run.live(p):
                    run.drift.append("%s: %s at %s but the code is about to do %s" % (p, op, at, run.sch.pending(p)))
                else:
                    run.drift.append("%s: %s at %s but the real actor already returned" % (p, op, at))
                run.info[p]["detached"] = True
                continue
            k = run.kind(run.sch.pending(p))
            if op == "Crash":
                run.kill(p)
                run.nontrivial.add("crash@%s:%s" % (run.info[p]["role"], at))
            else:
                run.step(p, inject=inject_exc())
                run.nontrivial.add("fault@%s:%s:%s" % (run.info[p]["role"], at, k))
        else:
            raise RuntimeError("unknown model step %r" % (a,))
        # M layer: the model's abstract archive content after the step
        if "obs" in a and not any(i["detached"] for i in run.info.values()):
            mod = {(x[0], x[1], x[2]) for x in a["obs"]}
            real = run.projection()
            if mod != real and not run.drift:
                run.drift.append("after step %d %s.%s: model archive content %s, real %s" % (idx, p, op, sorted(mod), sorted(real)))
    # whatever is still running finishes, in a fixed order
    for p in sorted(run.info):
        run.run_to_end(p)
    epilogue(run)


def epilogue(run):
    """after everything: a late reader and a late uploader on both archives, left-over files"""
    w = run.w
    run.final_checks()
    for arch in ("A", "B"):
        present = os.path.isfile(run.names[(arch, "pkg")])
        late = "L" + arch
        w.payload.setdefault("LATE", None)
        if w.payload["LATE"] is None:
            w.payload["LATE"] = make_payload(os.path.join(w.work, "pay", "LATE"), "mid", w.rng, "LATE")
            a = w.archive("A", os.path.join(w.work, "ref", "LATE"), ["download", "upload"])
            a._uploadPackage(w.bid, PKG, w.payload["LATE"]["audit"], w.payload["LATE"]["content"])
            with open(os.path.join(w.work, "ref", "LATE", w.hex[0:2], w.hex[2:4], w.hex[4:] + "-1" + PKG), "rb") as f:
                w.ref["LATE"] = f.read()
            w.wtot["LATE"] = None
        run.spawn(late, "up", arch, "pkg", payload="LATE")
        run.run_to_end(late)
        i = run.info[late]
        if i["failed"]:
            run.drift.append("late upload failed: %s" % i["result"])
        elif not os.path.isfile(run.names[(arch, "pkg")]):
            run.viol("partial-artifact-visible", name=(arch, "pkg"), by=late, why="upload reported success, nothing under the name")
        run.nontrivial.add("late-upload-%s" % ("skipped" if present else "published"))
        rd = "R" + arch
        run.spawn(rd, "reader", arch, "pkg")
        run.run_to_end(rd)
    run.final_checks()


def with_run(work, seed, idx, uploaders, body, n_chunks=2, **kw):
    """set up world + interposed run, execute body(run), return the result record"""
    common.use_repo()
    out = {"violations": [], "drift": [], "nontrivial": [], "notes": [], "checks": 0, "ops": 0}
    olderr = sys.stderr
    devnull = open(os.devnull, "w")
    run = None
    # Finalizers of abandoned writer objects (a GzipFile whose constructor or close() was hit by an injected
    # fault sits in a reference cycle) issue write() calls on the interposed temp file from whichever thread
    # happens to trigger the cyclic collector; that would hand a foreign operation to an innocent actor at a
    # random moment. The collector therefore only runs in the driver thread, between behaviours.
    gc.disable()
    try:
        world = World(work, seed, idx, uploaders, **kw)
        run = Run(world, n_chunks)
        world.references(run.ip)
        sys.stderr = devnull
        try:
            body(run)
        except Violation:
            pass
        finally:
            sys.stderr = olderr
        out["classes"] = {u: p["cls"] for u, p in world.payload.items() if p}
        out["sizes"] = {u: len(r) for u, r in world.ref.items()}
    finally:
        sys.stderr = olderr
        devnull.close()
        if run is not None:
            # nobody may be left runnable: park for ever what is still alive
            for n in list(run.info):
                if run.sch.state(n) == "parked":
                    try:
                        run.kill(n)
                    except Violation:
                        pass
            gc.collect()
            run.close()
            out.update(violations=run.violations, drift=run.drift, nontrivial=sorted(run.nontrivial),
                       notes=sorted(run.notes), checks=run.checks, ops=run.stepno, trace=run.trace[:400])
    return out


def replay_task(arg):
    i, hist, seed, keep = arg
    work = fast_scratch("vf-c09-")
    try:
        ups = sorted({a["p"] for a in hist if a["op"] == "Start"})
        rng = random.Random(seed * 7 + i)
        r = with_run(work, seed, i, ups, lambda run: replay_behaviour(run, hist, rng))
    finally:
        if not keep:
            shutil.rmtree(work, ignore_errors=True)
    r["i"] = i
    return r


# ----------------------------------------------------------------------------------------------
# exhaustive crash / fault points of solo operations

SOLO = {
    # name: (uploader payload classes, preparation, operation, filemode)
    "upload-pkg": dict(classes=["mid", "tiny"], prep=[], op=("up", "A", "pkg", "U1"), filemode=None),
    "upload-pkg-filemode": dict(classes=["big", "tiny"], prep=[], op=("up", "A", "pkg", "U1"), filemode=0o600),
    "upload-pkg-exists": dict(classes=["mid", "tiny"], prep=[("up", "A", "pkg", "U2")], op=("up", "A", "pkg", "U1"), filemode=None),
    "upload-meta": dict(classes=["tiny", "tiny"], prep=[], op=("up", "A", "meta", "U1"), filemode=0o640),
    "upload-meta-replace": dict(classes=["tiny", "tiny"], prep=[("up", "A", "meta", "U2")], op=("up", "A", "meta", "U1"), filemode=None),
    "mirror": dict(classes=["mid", "tiny"], prep=[("up", "A", "pkg", "U1")], op=("mirror", "A", "pkg", None), filemode=0o640),
    "mirror-big": dict(classes=["big", "tiny"], prep=[("up", "A", "pkg", "U1")], op=("mirror", "A", "pkg", None), filemode=None),
    "mirror-edge": dict(classes=[("edge512", 5), "tiny"], prep=[("up", "A", "pkg", "U1")], op=("mirror", "A", "pkg", None), filemode=None),
    "mirror-exists": dict(classes=["mid", "tiny"], prep=[("up", "A", "pkg", "U1"), ("up", "B", "pkg", "U2")],
                          op=("mirror", "A", "pkg", None), filemode=None),
    "mirror-edge2": dict(classes=[("edge10752", 3), "tiny"], prep=[("up", "A", "pkg", "U1")], op=("mirror", "A", "pkg", None), filemode=None),
    "mirror-nofail": dict(classes=["mid", "tiny"], prep=[("up", "A", "pkg", "U1")], op=("mirror", "A", "pkg", None), filemode=None, nofail=True),
}


def solo_body(scn, mode, k, count):
    s = SOLO[scn]

    def body(run):
        for j, (role, arch, kind, pl) in enumerate(s["prep"]):
            run.spawn("P%d" % j, role, arch, kind, payload=pl)
            run.run_to_end("P%d" % j)
        role, arch, kind, pl = s["op"]
        run.spawn("X", role, arch, kind, payload=pl)
        n = 0
        while run.live("X"):
            if mode != "count" and n == k:
                op = run.sch.pending("X")
                if mode == "crash":
                    run.kill("X")
                    run.nontrivial.add("solo:%s:crash@%s" % (scn, op.name))
                    break
                if op.name.startswith(("path.",)):
                    count["unfaultable"] = True      # os.path.isfile & co never raise
                    return
                e = errno.EIO if mode == "eio" else errno.ENOSPC
                run.step("X", inject=OSError(e, os.strerror(e)))
                run.nontrivial.add("solo:%s:fault@%s" % (scn, op.name))
            else:
                run.step("X")
            n += 1
        count["ops"] = n
        run.run_to_end("X")
        epilogue(run)
    return body


def solo_task(arg):
    scn, mode, k, seed, keep = arg
    s = SOLO[scn]
    work = fast_scratch("vf-c09s-")
    count = {}
    try:
        r = with_run(work, seed, 0, ["U1", "U2"], solo_body(scn, mode, k, count), classes=s["classes"],
                     filemode=s["filemode"], nofail=s.get("nofail", False))
    finally:
        if not keep:
            shutil.rmtree(work, ignore_errors=True)
    r.update(scn=scn, mode=mode, k=k, count=count)
    return r


# ----------------------------------------------------------------------------------------------
# (C) real processes racing on one build-id

def _race_child(role, spec, bid, payload, meta, ws, plan, barrier, cache_spec):
    """runs in a forked child: one real upload / mirroring download, optionally dying or failing at op #k"""
    from bob import archive as A
    ip = None
    if plan is not None:
        ip = fsint.Interposer(record_reads=False)
        cnt = [0]
        kind, k = plan

        def hook(phase, op):
            if phase != "before":
                return
            if cnt[0] == k:
                cnt[0] += 1
                if kind == "kill":
                    os._exit(137)
                raise OSError(errno.ENOSPC, "injected")
            cnt[0] += 1
        ip.hook = hook
        ip.install(A, extra={"NamedTemporaryFile": ip.tempfile.NamedTemporaryFile})
    a = A.getSingleArchiver(None, spec)
    barrier.wait()
    rc = 0
    try:
        if role == "up":
            a._uploadPackage(bid, PKG, payload["audit"], payload["content"])
        elif role == "meta":
            a._uploadLocalFile(bid, META, meta)
        else:
            c = A.getSingleArchiver(None, cache_spec)
            caches = [x for x in [a, c] if (x is not a) and x.canCache()]
            for _ in range(5000):
                ret = a._downloadPackage(bid, PKG, os.path.join(ws, "audit.json.gz"), os.path.join(ws, "content"), caches, ws)
                if ret[0]:
                    break
    except BaseException:
        rc = 3
    os._exit(rc)


def _race_reader(names, refs, metas, stop, q):
    """polls the artifact names until told to stop; reports observations that P forbids"""
    seen, bad, polls, reads = {}, [], 0, 0
    cache = {}
    refm = {mask(r): u for u, r in refs.items()}
    final = False
    while True:
        if stop.is_set():
            if final:
                break
            final = True          # one last complete poll after everybody is gone
        polls += 1
        for key, path in names.items():
            try:
                with open(path, "rb") as f:
                    st = os.fstat(f.fileno())
                    data = f.read()
            except FileNotFoundError:
                if key in seen and key[1] == "pkg":
                    bad.append(("artifact-removed", key))
                continue
            reads += 1
            h = hashlib.sha1(data).hexdigest()
            if key[1] == "pkg":
                if h not in cache:
                    cache[h] = None if mask(data) in refm else (full_check(data) or "not-a-payload", len(data),
                                                                  [u for u, r in refs.items() if len(mask(data)) < len(mask(r)) and mask(r)[:len(mask(data))] == mask(data)])
                if cache[h] is not None:
                    why, size, pre = cache[h]
                    bad.append(("mirror-truncated-artifact" if (key[0] == "B" and pre) else "partial-artifact-visible", key, why, size))
                if key in seen and seen[key] != (st.st_ino, h):
                    bad.append(("artifact-overwritten", key))
                seen.setdefault(key, (st.st_ino, h))
            else:
                if data not in metas:
                    bad.append(("partial-metadata-visible", key, len(data)))
        if len(bad) > 20:
            break
    q.put({"bad": bad[:20], "polls": polls, "reads": reads, "seen": sorted(seen)})


def race_task(arg):
    rnd, seed, nproc, keep = arg
    common.use_repo()
    ctx = mp.get_context("fork")
    work = common.scratch("vf-c09r-")
    out = {"rnd": rnd, "violations": [], "nontrivial": [], "evaluations": 0}
    try:
        ups = ["U%d" % j for j in range(1, nproc + 1)]
        rng = random.Random(seed * 991 + rnd)
        classes = [rng.choice(CLASSES) for _ in ups]
        w = World(work, seed, 100000 + rnd, ups, classes=classes, filemode=rng.choice([None, 0o640]))
        ip = fsint.Interposer()
        w.references(ip)
        names = {(a, k): w.name(a, k) for a in ("A", "B") for k in ("pkg", "meta")}
        roles = []
        for j, u in enumerate(ups):
            r = rng.random()
            role = "mirror" if j >= 2 and r < 0.3 else ("meta" if r > 0.9 else "up")
            arch = "A" if (role != "up" or j < 2 or rng.random() < 0.7) else "B"
            plan = None
            if role != "mirror" and rng.random() < 0.4:
                plan = (rng.choice(["kill", "fault"]), rng.randrange(0, 16))
            if j == 0:
                role, arch, plan = "up", "A", None      # somebody publishes in A for sure
            roles.append((u, role, arch, plan))
        barrier = ctx.Barrier(len(roles))
        stop = ctx.Event()
        q = ctx.Queue()
        rd = ctx.Process(target=_race_reader, args=(names, w.ref, set(w.meta.values()), stop, q))
        rd.start()
        procs = []
        for (u, role, arch, plan) in roles:
            spec = w.spec(arch)
            p = ctx.Process(target=_race_child, args=(role, spec, w.bid, w.payload[u], w.meta[u],
                                                      os.path.join(work, "ws_" + u), plan, barrier, w.spec("B")))
            p.start()
            procs.append(p)
        for p in procs:
            p.join(1200)
            if p.is_alive():
                p.kill()
                raise RuntimeError("race child did not terminate")
        stop.set()
        res = q.get(timeout=1200)
        rd.join(600)
        out["evaluations"] = res["reads"]
        out["polls"] = res["polls"]
        for b in res["bad"]:
            out["violations"].append((b[0], {"round": rnd, "observation": b, "roles": roles, "classes": classes}))
        # final state: whoever was not killed/faulted and uploaded to A => A has an artifact; all complete
        clean_up = [r for r in roles if r[1] == "up" and r[2] == "A" and r[3] is None]
        if clean_up and ("A", "pkg") not in [tuple(x) for x in res["seen"]]:
            out["violations"].append(("partial-artifact-visible", {"round": rnd, "why": "successful uploads but nothing under the name"}))
        out["nontrivial"] = sorted({"race:%s%s" % (r[1], ":" + r[3][0] if r[3] else "") for r in roles} |
                                   {"race-seen:%s/%s" % tuple(x) for x in res["seen"]})
    finally:
        if not keep:
            shutil.rmtree(work, ignore_errors=True)
    return out


# ----------------------------------------------------------------------------------------------
# (C') trace validation: the same kind of race, every process recorded, the merged trace validated by TLC

def _tree_matches(w, ws):
    tree = read_tree(ws) if os.path.isdir(ws) else {}
    for u, p in w.payload.items():
        if p and all(tree.get(rel) == data for rel, data in p["files"].items()) and len(tree) == len(p["files"]) + 1:
            with open(p["audit"], "rb") as f:
                if tree.get("audit.json.gz") == f.read():
                    return u
    return None


def _trace_child(proc, role, arch, kind, w, work, plan, jseed, barrier, rv, opts):
    """forked child: one real upload / mirroring download / some reads, recorded by checks.c09_trace.Recorder"""
    from bob import archive as A
    from bob import tty
    from checks import c09_trace as T
    rc = 0
    try:
        names = {w.name(a, k): (a, k) for a in ("A", "B") for k in ("pkg", "meta")}
        rec = T.Recorder(proc, role, work, w.roots, names, plan=plan, jitter=random.Random(jseed), rendezvous=rv)
        rec.install(A)
        a = A.getSingleArchiver(None, w.spec(arch))
        sys.stderr = open(os.devnull, "w")
        barrier.wait()
    except BaseException:
        os._exit(4)
    try:
        if role == "up":
            s = rec.pair_begin("Start", a=arch, k=kind)
            rec.pair_end("Start", s, a=arch, k=kind)
            try:
                if kind == "pkg":
                    r = a._uploadPackage(w.bid, PKG, w.payload[proc]["audit"], w.payload[proc]["content"])
                else:
                    r = a._uploadLocalFile(w.bid, META, w.meta[proc])
                rec.note(role=role, result=repr(r)[:120], failed=bool(isinstance(r, tuple) and r[-1] == tty.ERROR))
            except BaseException as e:
                rec.note(role=role, result="%s: %s" % (type(e).__name__, str(e)[:100]), failed=True)
        elif role == "mirror":
            if opts.get("waitsrc"):      # harness-level wait (not Bob code, not traced): only shapes the schedule
                for _ in range(2000):
                    if os.path.exists(w.name("A", "pkg")):
                        break
                    time.sleep(0.001)
            ws = os.path.join(work, "ws_" + proc)
            c = A.getSingleArchiver(None, w.spec("B"))
            caches = [x for x in [a, c] if (x is not a) and x.canCache()]
            try:
                ret = a._downloadPackage(w.bid, PKG, os.path.join(ws, "audit.json.gz"), os.path.join(ws, "content"), caches, ws)
                ok = bool(ret[0]) and _tree_matches(w, ws) is not None
                rec.note(role=role, found=rec.found, ok=ok, result=repr(ret)[:120])
            except BaseException as e:
                rec.note(role=role, found=rec.found, ok=False, result="%s: %s" % (type(e).__name__, str(e)[:100]))
        else:
            hits = 0
            for i, nm in enumerate(opts["names"]):
                rec.proc, rec.rread, rec.found = nm, None, None
                if i:                    # harness-level wait (not traced): later attempts find something to read
                    for _ in range(1500):
                        if os.path.exists(w.name(arch, kind)):
                            break
                        time.sleep(0.001)
                ws = os.path.join(work, "ws_" + nm)
                try:
                    if kind == "pkg":
                        ret = a._downloadPackage(w.bid, PKG, os.path.join(ws, "audit.json.gz"), os.path.join(ws, "content"), [], ws)
                        ok = bool(ret[0]) and _tree_matches(w, ws) is not None
                    else:
                        ret = a._downloadLocalFile(w.bid, META)
                        ok = ret[0] is not None and ret[0] in set(w.meta.values())
                    result = repr(ret)[:120]
                except BaseException as e:
                    ok, result = False, "%s: %s" % (type(e).__name__, str(e)[:100])
                if rec.rread is not None:
                    rec.pair_end("RRead", rec.rread, res="ok" if ok else "bad")
                rec.note(role=role, found=rec.found, ok=ok, result=result, name=[arch, kind])
                if rec.found:
                    hits += 1
                    if hits >= opts.get("hits", 1):
                        break
                else:
                    time.sleep(0.0005)
    except BaseException:
        rc = 3
    os._exit(rc)


def trace_round(arg):
    """one round of real processes on one build-id, all recorded -> spec-level trace + verdicts of the independent oracles"""
    rnd, seed, keep = arg
    common.use_repo()
    from checks import c09_trace as T
    ctx = mp.get_context("fork")
    work = common.scratch("vf-c09v-")
    out = {"rnd": rnd, "violations": [], "nontrivial": [], "evaluations": 0}
    try:
        rng = random.Random(seed * 7919 + rnd * 31 + 5)
        forced = rnd == 0          # round 0: two uploaders meet right before their link() -> one must lose
        nup = 2 if forced else rng.randrange(2, 6)
        ups = ["U%d" % j for j in range(1, nup + 1)]
        cls0 = rng.choice(CLASSES)
        classes = [cls0 if j < 2 else rng.choice(CLASSES) for j in range(nup)]
        edge = rnd % 8 == 1
        if edge:                   # packed size just above the extractor's first read (cf. SOLO "mirror-edge"): the mirror must
            classes = [("edge512", 5)] * nup      # drain its source; nobody but the mirrors publishes in B
        w = World(work, seed, 200000 + rnd, ups, classes=classes, filemode=0o640)
        w.references(fsint.Interposer())
        os.makedirs(os.path.join(work, "ev"))
        T.Ticket.create(os.path.join(work, "ticket"))
        names = {(a, k): w.name(a, k) for a in ("A", "B") for k in ("pkg", "meta")}
        roster = []            # (proc, role, arch, kind, plan, opts)
        for j, u in enumerate(ups):
            r = rng.random()
            kind = "pkg" if j < 2 or r < 0.6 else "meta"
            arch = "A" if j < 2 or rng.random() < 0.6 or edge else "B"
            plan = None
            if j >= 1 and not forced and rng.random() < 0.35:
                mode = rng.choice(["kill", "fault"])
                ops = [o for o in (T.KILLABLE if mode == "kill" else T.FAULTABLE)
                       if o != ("Replace" if kind == "pkg" else "Link") and not (kind == "meta" and o == "Exists")]
                plan = (mode, rng.choice(ops), rng.randrange(0, 3))
            roster.append((u, "up", arch, kind, plan, {}))
        nmir = 2 if forced else rng.randrange(1, 4)
        for j in range(nmir):
            plan = None
            if not forced and rng.random() < 0.25:
                mode = rng.choice(["kill", "fault"])
                plan = (mode, rng.choice([o for o in (T.KILLABLE if mode == "kill" else T.FAULTABLE) if o != "Replace"]), rng.randrange(0, 3))
            roster.append(("M%d" % (j + 1), "mirror", "A", "pkg", plan, {"waitsrc": j == 0 or rng.random() < 0.5}))
        rd = [("A", "pkg"), ("B", "pkg"), ("A", "meta") if any(r[3] == "meta" and r[2] == "A" for r in roster) else ("B", "pkg")]
        for j, (arch, kind) in enumerate(rd):
            roster.append(("R%d" % (3 * j + 1), "reader", arch, kind, None,
                           {"names": ["R%d" % (3 * j + i) for i in (1, 2, 3)], "hits": 2 if j == 1 else 1}))
        barrier = ctx.Barrier(len(roster))
        meet = ctx.Barrier(2) if forced else None
        stop = ctx.Event()
        q = ctx.Queue()
        poller = ctx.Process(target=_race_reader, args=(names, w.ref, set(w.meta.values()), stop, q))
        poller.start()
        procs = []
        for j, (proc, role, arch, kind, plan, opts) in enumerate(roster):
            rv = ("Link", meet) if (forced and role == "up") else None
            p = ctx.Process(target=_trace_child, args=(proc, role, arch, kind, w, work, plan, seed * 131 + rnd * 17 + j, barrier, rv, opts))
            p.start()
            procs.append(p)
        for p, r in zip(procs, roster):
            p.join(600)
            if p.is_alive():
                p.kill()
                raise RuntimeError("trace child did not terminate")
            if p.exitcode not in (0, 137) or (p.exitcode == 137 and not (r[4] and r[4][0] == "kill")):
                raise RuntimeError("trace child %s ended with status %s" % (r[0], p.exitcode))
        stop.set()
        res = q.get(timeout=600)
        poller.join(600)
        out["evaluations"] = res["reads"]
        for b in res["bad"]:
            out["violations"].append((b[0], {"round": rnd, "observation": b, "roster": roster, "classes": classes}))
        recs, notes = T.load_round(os.path.join(work, "ev"))
        role = {}
        for (proc, r, arch, kind, plan, opts) in roster:
            role[proc] = r
            for nm in opts.get("names", []):
                role[nm] = r
        full = {}
        for (proc, r, arch, kind, plan, opts) in roster:
            if r == "up":
                full[proc] = len(w.ref[proc]) if kind == "pkg" else len(w.meta[proc])
        events, nf, nc, info = T.project(recs, full, role)
        out["trace"] = {"ev": events, "nf": nf, "nc": nc}
        out["info"] = info
        out["raw_events"] = len(recs)
        # independent oracles on what the processes themselves got
        planned = {r[0] for r in roster if r[4]}
        for n in notes:
            if n.get("role") in ("mirror", "reader") and n.get("found") and not n.get("ok") and n["p"] not in planned:
                out["violations"].append(("reader-got-invalid-artifact", {"round": rnd, "by": n["p"], "role": n["role"], "result": n.get("result"),
                                                                         "roster": roster, "classes": classes}))
            out["evaluations"] += 1
        # a process that never got a successful publish operation back owns nothing under a name
        created = {}
        for r in recs:
            if r["ph"] == "ret" and r["op"] == "MkTemp" and "ino" in r:
                created.setdefault(r["ino"], []).append((r["t"], r["p"]))
        pubs = {r["p"] for r in recs if r["ph"] == "ret" and ((r["op"] == "Link" and r.get("res") == "won") or (r["op"] == "Replace" and "exc" not in r))}
        failed = {n["p"] for n in notes if n.get("failed")}
        for key, path in names.items():
            try:
                ino = os.stat(path).st_ino
            except FileNotFoundError:
                continue
            owners = created.get(ino, [])
            if owners and not any(p in pubs for _, p in owners):
                by = max(owners)[1]
                out["violations"].append(("failed-upload-left-artifact" if by in failed else "partial-artifact-visible",
                                          {"round": rnd, "name": key, "by": by, "why": "under the name without a successful publish operation",
                                           "roster": roster}))
        clean_up = [r for r in roster if r[1] == "up" and r[2] == "A" and r[3] == "pkg" and r[4] is None]
        if clean_up and ("A", "pkg") not in [tuple(x) for x in res["seen"]]:
            out["violations"].append(("partial-artifact-visible", {"round": rnd, "why": "successful uploads but nothing under the name"}))
        nt = {"trace:%s%s" % (r[1], (":%s@%s" % (r[4][0], r[4][1])) if r[4] else "") for r in roster}
        nt |= {"trace-seen:%s/%s" % tuple(x) for x in res["seen"]}
        nt |= {"trace:%s" % k for k in ("lost", "skipped", "notfound", "reads", "stop") if info.get(k)}
        out["nontrivial"] = sorted(nt)
        out["roster"] = [(r[0], r[1], r[2], r[3], r[4]) for r in roster]
    finally:
        if not keep:
            shutil.rmtree(work, ignore_errors=True)
    return out


def trace_validation(a, rep, viol_counts, quick):
    """(C') record rounds of real racing processes and let TLC validate the traces against TraceArchivePublish"""
    from checks import c09_trace as T
    nrounds = max(2, int((12 if quick else 160) * a.scale))
    budget = float(os.environ.get("VF_C09_TRACE_BUDGET", "12" if quick else "400"))
    t0 = time.time()
    rounds = []
    for rnd in range(nrounds):
        r = trace_round((rnd, a.seed, a.keep))
        rounds.append(r)
        collect(rep, r, viol_counts, "traced process race round %d" % r["rnd"])
        if time.time() - t0 > budget and len(rounds) >= 2:
            break
    traces = [r["trace"] for r in rounds]
    # binding self-test: corrupted copies of round 0's trace (which has a lost publish race) ride in the same TLC run
    muts = T.corruptions(traces[0])
    allv = T.validate(traces + [m for _, m in muts], rep)
    verdicts, mv = allv[:len(traces)], allv[len(traces):]
    accepted = rejected = 0
    tot = {}
    for r, v in zip(rounds, verdicts):
        for k, n in r["info"].items():
            tot[k] = tot.get(k, 0) + n
        if v["violated"]:
            # an invariant / action property of the P layer failed on a state of a behaviour matched to a real trace
            sig = "trace-invariant:" + v["violated"]
            viol_counts[sig] = viol_counts.get(sig, 0) + 1
            if viol_counts[sig] == 1:
                rep.violation(sig, {"round": r["rnd"], "roster": r["roster"], "cex_tail": v["cex"], "meaning": SIGNATURES.get(sig),
                                    "events": r["trace"]["ev"][:300]})
        elif v["matched"] == v["len"]:
            accepted += 1
            rep.traces += 1
        else:
            rejected += 1
            ev = r["trace"]["ev"]
            rep.model_drift("traced round %d: event %d of %d not accepted by TraceArchivePublish: %s (after %s)" % (
                r["rnd"], v["matched"] + 1, v["len"], {k: x for k, x in ev[v["matched"]].items() if x not in ("-", "?")},
                [(e["p"], e["ph"], e["op"]) for e in ev[max(0, v["matched"] - 4):v["matched"]]]))
    st = None
    if muts and not verdicts[0]["violated"] and verdicts[0]["matched"] == verdicts[0]["len"]:
        st = T.judge_corruptions(0, traces[0], muts, mv)
    elif accepted:
        st = T.selftest(traces, verdicts)        # round 0 was not accepted: take another accepted trace (extra TLC run)
    if st is None and not rep.violations and not rejected:
        raise RuntimeError("trace validation: no trace was accepted")
    rep.extra["trace_validation"] = {
        "rounds": len(rounds), "accepted": accepted, "rejected_by_mechanism_model": rejected,
        "invariant_violations": sum(1 for v in verdicts if v["violated"]),
        "events": sum(len(t["ev"]) for t in traces), "raw_records": sum(r["raw_events"] for r in rounds),
        "processes": sum(len(r["roster"]) for r in rounds), "features": tot, "selftest": st, "wall_s": round(time.time() - t0, 1)}
    if accepted:
        r = next(r for r, v in zip(rounds, verdicts) if not v["violated"] and v["matched"] == v["len"])
        rep.sample({"validated_trace_of_round": r["rnd"], "roster": r["roster"],
                    "events": [[e["p"], e["ph"], e["op"]] + [e[k] for k in ("a", "k", "res", "saw", "at") if e[k] not in ("-", "?")] + ([e["n"]] if e["n"] != 1 else [])
                               for e in r["trace"]["ev"][:120]]})
        rep.sample({"trace_binding_selftest": st})
    if quick is not None and accepted and not tot.get("lost") and a.scale >= 1.0:
        raise RuntimeError("trace vacuity: no lost publish race in any traced round")


# ----------------------------------------------------------------------------------------------

ACTIONS = ["Start", "Exists", "MkTemp", "Write", "Close", "Chmod", "Link", "Replace", "Unlink", "EClose", "EUnlink",
           "MOpen", "ROpen", "RRead", "Fault", "Crash"]
# replay-side vacuity: features the replays must have exercised on the real code (full scale only)
REQUIRED_FEATURES = ["up:Link", "up:Replace", "mirror:Link", "mirror:Unlink", "lost-race:up", "skipped-exists", "metadata-replaced",
                     "mirror-read-ok", "reader-read-ok", "temp-left-after-crash", "late-upload-skipped", "late-upload-published",
                     "crash@up:link", "crash@up:unlink", "crash@up:write", "crash@mirror:write", "crash@mirror:link",
                     "fault@up:write:write", "fault@up:link:link", "fault@up:close:close", "fault@up:mktemp:mktemp",
                     "fault@mirror:write:write", "fault@mirror:write:ws", "fault@mirror:link:link", "probes:eager", "probes:lazy"]
REACH = [("ReachLostRace", "ReachLostRace"), ("ReachMirrorCommit", "ReachMirrorCommit"), ("ReachMirrorLost", "ReachMirrorLost"),
         ("ReachMetaReplaced", "ReachMetaReplaced"), ("ReachFaultCleanup", "ReachFaultCleanup"), ("ReachCrashTemp", "ReachCrashTemp"),
         ("NoDrainAtomic", "Atomic"), ("PkgReplaceOverwrite", "NeverOverwrite")]


def main():
    def more(ap):
        ap.add_argument("--only-replay", action="store_true",
                        help="development aid: skip the exhaustive TLC runs (A); level drops to exploration")
        ap.add_argument("--scale", type=float, default=1.0, help="development aid: multiplier for the number of behaviours")
        ap.add_argument("--only-trace", action="store_true",
                        help="development aid: only (C') trace validation of real process races; level drops to exploration")
    a = common.args(PROP, more)
    rep = evidence.Report(PROP, a.tier, a.seed)
    quick = a.tier == "quick"
    rep.rule = ("behaviours = TLC -simulate runs of ArchivePublish (planned fault/crash point per behaviour, all "
                "interleavings of 2-3 uploaders, mirror, reader) replayed op by op into real LocalArchive objects; "
                "evaluations = reader observations (complete listing + validation of every file under an artifact name) "
                "after every real fs operation; non-trivial = distinct (role, model step), (fault|crash, role, pc, real op "
                "kind), solo crash/fault points, race outcomes (lost race, skip, metadata replaced, mirror read ok)")
    rep.assumptions = [
        "link(), rename() and O_EXCL creation are atomic in the file system holding the archive (POSIX local fs)",
        "a kill is modelled at operation granularity: the process vanishes immediately before a file-system operation",
        "'failed upload leaves nothing' is judged for errors raised before the artifact appeared; an error raised by the "
        "final unlink of the temporary name after a successful publish leaves the complete artifact (noted, not a violation)",
        "the gzip header MTIME field (wall clock of the upload) is masked when comparing with the solo-upload payload",
        "file-system effects of bob.archive on a file archive are issued through os/open/NamedTemporaryFile names of its module namespace",
        "caches for a download are derived as MultiArchive.downloadPackage does (archives other than the source with the 'cache' flag)",
        "trace validation: an operation takes effect between its recorded call and return; the order of the records is the order of "
        "tickets drawn from one counter file under flock (both records of every operation), never wall-clock time; operations with "
        "overlapping intervals are tried in every order that agrees with their logged results",
        "trace validation: inode numbers identify the file a writer created (an inode found under a name is attributed to its latest "
        "creator that published there); 'complete' = bytes written equal the size of the solo reference upload (uploaders) or st_size "
        "of the opened source (mirrors); writes between the first and the completing one are stuttering steps",
    ]
    if a.replay:
        return do_replay(a, rep)
    if a.only_trace:
        common.use_repo()
        import bob.archive  # noqa: F401
        vc = {}
        trace_validation(a, rep, vc, quick)
        rep.extra["violation_counts"] = vc
        rep.level = "exploration"
        sweep_scratch()
        return rep.finish()

    # (A) exhaustive design check + vacuity configs run in a side process while (B) generates and replays
    gens = [("ArchivePublish_gen_race.cfg", 500 if quick else 5000, 40), ("ArchivePublish_gen.cfg", 500 if quick else 5000, 40),
            ("ArchivePublish_gen_many.cfg", 200 if quick else 3000, 60)]
    gens = [(c, max(40, int(n * a.scale)), d) for c, n, d in gens]
    jobs_a = [("main", ("ArchivePublish", "ArchivePublish.cfg"), dict(workers=min(8, WORKERS), coverage=True, timeout=20000))]
    if not quick:
        jobs_a += [(c, ("ArchivePublish", c), dict(workers=min(8, WORKERS), timeout=20000))
                   for c in ("ArchivePublish_thorough.cfg", "ArchivePublish_thorough3.cfg")]
    jobs_a += [("reach:" + n, ("ArchivePublish", "ArchivePublish_reach_%s.cfg" % n), dict(workers=2, timeout=15000)) for n, _ in REACH]
    jobs_g = [("gen%d" % j, ("ArchivePublish", cfg), dict(workers=1, simulate="num=%d" % num, depth=depth, seed=a.seed * 10 + 1 + j,
                                                         timeout=15000)) for j, (cfg, num, depth) in enumerate(gens)]
    get_g = tlc_jobs(jobs_g)
    get_a = tlc_jobs(jobs_a) if not a.only_replay else None
    gen_res = get_g()
    hists, seen = [], set()
    for j in range(len(gens)):
        for h in gen_res["gen%d" % j].printed:
            key = json.dumps([(x["p"], x["op"], x["a"], x["k"]) for x in h])
            if key not in seen:
                seen.add(key)
                hists.append(h)
    rep.extra["behaviours_generated"] = sum(len(g.printed) for g in gen_res.values())
    rep.extra["behaviours_distinct"] = len(hists)
    if len(hists) < 100:
        raise tlc.TlcError("generation produced only %d behaviours" % len(hists))
    viol_counts = replay_all(a, rep, hists, quick)
    rep.extra["violation_counts"] = viol_counts
    rep.extra["features"] = sorted(x for x in rep.nontrivial if isinstance(x, str))
    missing = [f for f in REQUIRED_FEATURES if f not in rep.nontrivial]
    rep.extra["required_features_missing"] = missing
    if missing and a.scale >= 1.0 and not viol_counts and not rep.extra.get("replay_cut_by_budget_s"):
        # (with violations the behaviours are cut short at the first forbidden observation)
        raise RuntimeError("replay vacuity: features never exercised on the real code: %s" % missing)
    if a.only_replay:
        sweep_scratch()
        return rep.finish()
    res_a = get_a()
    res = res_a["main"]
    rep.add_tlc(res, "ArchivePublish exhaustive")
    if res.violated:
        rep.violation("model:" + res.violated, {"cex": res.cex})
    tlc.require_coverage(res, ACTIONS, "ArchivePublish.cfg")
    rep.extra["action_coverage"] = {k: v[1] for k, v in res.coverage.items()}
    for c in ("ArchivePublish_thorough.cfg", "ArchivePublish_thorough3.cfg"):
        if c in res_a:
            rep.add_tlc(res_a[c], c)
            if res_a[c].violated:
                rep.violation("model:" + res_a[c].violated, {"cex": res_a[c].cex, "cfg": c})
    for n, inv in REACH:
        r2 = res_a["reach:" + n]
        if r2.violated != inv:
            raise tlc.TlcError("vacuity: %s did not yield a violation of %s (%s)" % (n, inv, r2.violated))
    rep.extra["vacuity_configs_violated_as_required"] = [n for n, _ in REACH]
    rep.extra["violation_counts"] = viol_counts
    sweep_scratch()
    if rep.drift:
        rep.level = "exploration"
    return rep.finish()


_SIDE = []


def kill_side():
    """terminate side processes (and the TLC JVMs they started) that are still around, e.g. after a failure"""
    import signal
    for p in _SIDE:
        if p.is_alive():
            try:
                os.killpg(p.pid, signal.SIGKILL)
            except OSError:
                pass
            p.join(10)
    del _SIDE[:]


def _tlc_child(jobs, conn):
    out = {}
    os.setsid()          # own process group: kill_side() reaches the JVMs too
    try:
        with ThreadPoolExecutor(len(jobs)) as ex:
            fs = {name: ex.submit(tlc.run, *args, **kw) for name, args, kw in jobs}
            for name, f in fs.items():
                r = f.result()
                r.out = r.out[-4000:]
                out[name] = r
        conn.send(("ok", out))
    except BaseException as e:
        conn.send(("error", "%s: %s" % (type(e).__name__, e)))
    conn.close()
    os._exit(0)


def tlc_jobs(jobs):
    """run TLC jobs concurrently in a side process (keeps this process single-threaded for the fork pools);
    returns a function that waits for {name: TlcResult}"""
    ctx = mp.get_context("fork")
    parent, child = ctx.Pipe(False)
    p = ctx.Process(target=_tlc_child, args=(jobs, child), daemon=True)
    p.start()
    child.close()
    _SIDE.append(p)

    def get():
        st, val = parent.recv()
        p.join()
        if st != "ok":
            raise tlc.TlcError(val)
        return val
    return get


def collect(rep, r, viol_counts, what):
    rep.evaluations += r.get("checks", 0) + r.get("evaluations", 0)
    for nt in r["nontrivial"]:
        rep.nontriv(nt)
    for d in r.get("drift", []):
        rep.model_drift("%s: %s" % (what, d))
    for n in r.get("notes", []):
        rep.extra.setdefault("notes", [])
        if n not in rep.extra["notes"]:
            rep.extra["notes"].append(n)
    for sig, detail in r["violations"]:
        viol_counts[sig] = viol_counts.get(sig, 0) + 1
        if viol_counts[sig] == 1:        # one written-out example per signature
            detail = dict(detail, what=what, meaning=SIGNATURES.get(sig), classes=r.get("classes"), sizes=r.get("sizes"),
                          rerun=r.get("rerun"))
            rep.violation(sig, detail)


def replay_all(a, rep, hists, quick):
    common.use_repo()
    import bob.archive  # noqa: F401  (import before fork)
    import bob.tty      # noqa: F401
    viol_counts = {}
    ctx = mp.get_context("fork")
    # solo scenarios: number of operations of each (measured), then every index as kill / EIO / ENOSPC point
    with ctx.Pool(WORKERS, maxtasksperchild=40) as pool:
        counts = pool.map(solo_task, [(s, "count", -1, a.seed, a.keep) for s in SOLO])
        solo = []
        for r in counts:
            r["rerun"] = {"solo": [r["scn"], "count", -1]}
            if r["violations"] or "ops" not in r["count"]:
                collect(rep, r, viol_counts, "solo %s" % r["scn"])
            n = r["count"].get("ops", 0)
            rep.extra.setdefault("solo_op_counts", {})[r["scn"]] = n
            for k in range(n):
                for mode in ("crash", "eio", "enospc"):
                    solo.append((r["scn"], mode, k, a.seed, a.keep))
        tasks = [(i, h, a.seed, a.keep) for i, h in enumerate(hists)]
        random.Random(a.seed).shuffle(tasks)      # a budget cut leaves an unbiased sample
        points = {"crash": 0, "fault": 0, "unfaultable": 0}
        it_solo = pool.imap_unordered(solo_task, solo, chunksize=4)
        it_rep = pool.imap_unordered(replay_task, tasks, chunksize=4)
        for r in it_solo:
            if r["count"].get("unfaultable"):
                points["unfaultable"] += 1
                continue
            points["crash" if r["mode"] == "crash" else "fault"] += 1
            r["rerun"] = {"solo": [r["scn"], r["mode"], r["k"]]}
            collect(rep, r, viol_counts, "solo %s %s at op %d" % (r["scn"], r["mode"], r["k"]))
        rep.extra["solo_points"] = points
        # wall-clock budget for the replays (the machine may be heavily shared): what was not replayed is reported
        budget = float(os.environ.get("VF_C09_BUDGET", "600" if quick else "1500"))
        t0 = time.time()
        nops, cut = 0, False
        for r in it_rep:
            rep.traces += 1
            nops += r["ops"]
            r["rerun"] = {"behaviour": hists[r["i"]], "i": r["i"]}
            collect(rep, r, viol_counts, "behaviour %d" % r["i"])
            if len(rep.samples) < 2:
                rep.sample({"behaviour": [(x["p"], x["op"], x["a"], x["k"]) for x in hists[r["i"]]],
                            "real_ops": [t[1:] for t in r.get("trace", [])[:60]], "payload_classes": r.get("classes")})
            if time.time() - t0 > budget:
                cut = True
                break
        if cut:
            pool.terminate()
        rep.extra["real_fs_ops_stepped"] = nops
        rep.extra["behaviours_replayed"] = rep.traces
        rep.extra["replay_cut_by_budget_s"] = budget if cut else None
    trace_validation(a, rep, viol_counts, quick)
    if not quick:
        rounds = [(rnd, a.seed, 8, a.keep) for rnd in range(max(4, int(60 * a.scale)))]
        nr, t0 = 0, time.time()
        for task in rounds:          # (every round forks its own 10 processes; pool workers may not have children)
            r = race_task(task)
            nr += 1
            collect(rep, r, viol_counts, "process race round %d" % r["rnd"])
            if time.time() - t0 > float(os.environ.get("VF_C09_BUDGET", "600")) and nr >= 4:
                break
        rep.extra["process_race_rounds"] = nr
    sweep_scratch()
    return viol_counts


def do_replay(a, rep):
    with open(a.replay) as f:
        d = json.load(f)
    rr = d["detail"].get("rerun") or {}
    common.use_repo()
    if "behaviour" in rr:
        r = replay_task((rr["i"], rr["behaviour"], d["seed"], a.keep))
    elif "solo" in rr:
        r = solo_task((rr["solo"][0], rr["solo"][1], rr["solo"][2], d["seed"], a.keep))
    else:
        raise RuntimeError("nothing to replay in %s" % a.replay)
    for t in r.get("trace", []):
        print(t)
    print("violations:", [(s, {k: v for k, v in dd.items() if k != "trace_tail"}) for s, dd in r["violations"]])
    print("drift:", r["drift"])
    vc = {}
    collect(rep, r, vc, "replay")
    return rep.finish()


def guarded_main():
    try:
        return main()
    finally:
        kill_side()
        sweep_scratch()


if __name__ == "__main__":
    evidence.main_wrapper(guarded_main)
