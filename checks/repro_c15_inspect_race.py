"""C15: sameWorkspace (share.py 115-125) does islink(link) and then readlink(link). If the owner of that workspace
removes the link in between (builder.py 1510 "shared location changed", 1544 "unshare", or the user deleting the
project), readlink raises FileNotFoundError, which is turned into BuildError("Error inspecting workspace") and aborts
the gc of an unrelated project.
The window is hit deterministically by removing the link from inside os.path.islink as seen by bob.share.
Exit status 1 = defect present.   Run: /venv/bin/python checks/repro_c15_inspect_race.py"""
import os, sys, tempfile, shutil, types
sys.path.insert(0, os.path.join(os.environ.get("VERIF_REPO", "/repo"), "pym"))
import bob.share as share
from bob.utils import hashDirectory

root = tempfile.mkdtemp(prefix="repro-c15-")
try:
    store = os.path.join(root, "store")
    d = os.path.join(root, "A", "dev", "dist", "pkg", "1")
    ws = os.path.join(d, "workspace")
    os.makedirs(ws)
    open(os.path.join(ws, "result.txt"), "w").write("x")
    open(os.path.join(d, "audit.json.gz"), "w").write("A")
    path, _ = share.LocalShare({"path": store}).installSharedPackage(ws, b"\x11" * 20, hashDirectory(ws), True)
    os.symlink(os.path.join(path, "workspace"), ws)          # A uses the package

    real_islink = os.path.islink

    def islink(p):
        r = real_islink(p)
        if p == ws and r:
            os.unlink(ws)        # project A: builder.py 1544 (unshare) / 1510 (shared location changed)
        return r
    fake_path = types.ModuleType("fake_os_path")
    fake_path.__dict__.update(os.path.__dict__)
    fake_path.islink = islink
    fake_os = types.ModuleType("fake_os")
    fake_os.__dict__.update(os.__dict__)
    fake_os.path = fake_path
    share.os = fake_os
    try:
        r = share.LocalShare({"path": store, "quota": "1G"}).gc(False, False)     # another project's bob clean --shared
        print("gc ->", r)
        sys.exit(0)
    except Exception as e:
        print("DEFECT: gc of another project RAISED %s: %s" % (type(e).__name__, e))
        sys.exit(1)
    finally:
        share.os = os
finally:
    shutil.rmtree(root, ignore_errors=True)
